package main

import (
	"bytes"
	"encoding/hex"
	"fmt"
	"github.com/ldclabs/cose/cose"
	"github.com/ldclabs/cose/cwt"
	"math/rand"
	"sort"
	"strconv"
	"strings"

	"github.com/ldclabs/cose/key"
)

func init() {
	register(&family{name: "map", gen: genMap, exec: execMap})
	propFamilies["C08"] = append(propFamilies["C08"], "map")
}

func resStr[T any](v T, err error, show func(T) string) string {
	if err != nil {
		return "err"
	}
	return "ok " + show(v)
}

func execMap(op string, a []string) string {
	switch op {
	case "map.unmarshal":
		var m key.CoseMap
		if err := m.UnmarshalCBOR(unhx(a[0])); err != nil {
			return "err"
		}
		out, err := m.MarshalCBOR()
		if err != nil {
			return "err-reencode"
		}
		// a destination that already holds entries ends up with exactly the decoded map
		used := key.CoseMap{1: 4, -4: []byte{1, 2, 3}, 4: []any{uint64(10)}, "stale": true, 99: "x"}
		if err := used.UnmarshalCBOR(unhx(a[0])); err != nil {
			return "REUSED-DESTINATION-FAILED"
		}
		if out2, _ := used.MarshalCBOR(); string(out2) != string(out) {
			return "ok " + hx(out) + " REUSED-DESTINATION-DIFFERS " + hx(out2)
		}
		return "ok " + hx(out)
	case "map.untext", "map.unjson":
		// arbitrary octets given to the text / JSON decoders of the label-map types (CoseMap, Key):
		// hex (between quotes for JSON) around the CBOR form — the two types accept and refuse alike
		in := unhx(a[0])
		var m key.CoseMap
		var kk key.Key
		var e0, e1 error
		if op == "map.unjson" {
			e0, e1 = m.UnmarshalJSON(in), kk.UnmarshalJSON(in)
		} else {
			e0, e1 = m.UnmarshalText(in), kk.UnmarshalText(in)
		}
		if (e0 == nil) != (e1 == nil) {
			return fmt.Sprintf("VIEWS-DISAGREE on acceptance: CoseMap=%v Key=%v", e0 == nil, e1 == nil)
		}
		if e0 != nil {
			return "err"
		}
		out, err := m.MarshalCBOR()
		if err != nil {
			return "err-reencode"
		}
		if o1, _ := kk.MarshalCBOR(); string(o1) != string(out) {
			return "ok " + hx(out) + " VIEWS-DIFFER"
		}
		// the text form written back is the lower-case hex of the re-encoded CBOR (quoted for JSON), for each view
		var t0, t1 []byte
		if op == "map.unjson" {
			t0, _ = m.MarshalJSON()
			t1, _ = kk.MarshalJSON()
			if string(t0) != `"`+hex.EncodeToString(out)+`"` || string(t1) != string(t0) {
				return "ok " + hx(out) + " JSON-FORM-IS-NOT-QUOTED-HEX-OF-CBOR " + string(t0)
			}
		} else {
			t0, _ = m.MarshalText()
			t1, _ = kk.MarshalText()
			if string(t0) != hex.EncodeToString(out) || string(t1) != string(t0) {
				return "ok " + hx(out) + " TEXT-FORM-IS-NOT-HEX-OF-CBOR " + string(t0)
			}
		}
		return "ok " + hx(out)
	case "map.views":
		// map.views <hex>: the same octets decoded as key.CoseMap, cose.Headers, cwt.ClaimsMap and key.Key — the typed views
		// are the same map: they accept and refuse alike and re-encode to the same octets (no view rewrites a value)
		data := unhx(a[0])
		var cm key.CoseMap
		var hv cose.Headers
		var cv cwt.ClaimsMap
		var kv key.Key
		e0, e1, e2, e3 := cm.UnmarshalCBOR(data), hv.UnmarshalCBOR(data), cv.UnmarshalCBOR(data), kv.UnmarshalCBOR(data)
		if (e0 == nil) != (e1 == nil) || (e0 == nil) != (e2 == nil) || (e0 == nil) != (e3 == nil) {
			return fmt.Sprintf("VIEWS-DISAGREE on acceptance: CoseMap=%v Headers=%v ClaimsMap=%v Key=%v", e0 == nil, e1 == nil, e2 == nil, e3 == nil)
		}
		if e0 == nil {
			b0, _ := cm.MarshalCBOR()
			b1, _ := hv.MarshalCBOR()
			b2, _ := cv.MarshalCBOR()
			b3, _ := kv.MarshalCBOR()
			if string(b1) != string(b0) || string(b2) != string(b0) || string(b3) != string(b0) {
				return "VIEWS-DISAGREE on the value: CoseMap=" + hx(b0) + " Headers=" + hx(b1) + " ClaimsMap=" + hx(b2) + " Key=" + hx(b3)
			}
		}
		return "same"
	case "map.tagkeep":
		// map.tagkeep <hex>: a deterministically encoded label map holding values under CBOR tags the library has no
		// business with (uuid, uri, encoded CBOR, private tags): every view decodes it and encodes it back octet for octet
		data := unhx(a[0])
		var cm key.CoseMap
		var hv cose.Headers
		var cv cwt.ClaimsMap
		var kv key.Key
		if e0, e1, e2, e3 := cm.UnmarshalCBOR(data), hv.UnmarshalCBOR(data), cv.UnmarshalCBOR(data), kv.UnmarshalCBOR(data); e0 != nil || e1 != nil || e2 != nil || e3 != nil {
			return "TAGGED-VALUE-REFUSED"
		}
		b0, _ := cm.MarshalCBOR()
		b1, _ := hv.MarshalCBOR()
		b2, _ := cv.MarshalCBOR()
		b3, _ := kv.MarshalCBOR()
		for _, b := range [][]byte{b0, b1, b2, b3} {
			if !bytes.Equal(b, data) {
				return "TAGGED-VALUE-REWRITTEN " + hx(b)
			}
		}
		return "same"
	case "map.getmap":
		// map.getmap <value>: GetMap on {1: value} through CoseMap and the typed views; a label map given as a plain Go map
		// (what a generic decoder produces) goes through the reflection path, which normalises / refuses the labels
		m := key.CoseMap{}
		if a[0] != "a" {
			v, _ := parseVal(a, 0)
			if cmv, ok := v.(key.CoseMap); ok {
				v = map[any]any(cmv)
			}
			m[1] = v
		}
		f := func(im key.CoseMap, err error) string {
			if err != nil {
				return "err"
			}
			if im == nil {
				return "ok nil"
			}
			var ks []string
			for k := range im {
				switch x := k.(type) {
				case int:
					ks = append(ks, "int:"+strconv.Itoa(x))
				case string:
					ks = append(ks, "t:"+hx([]byte(x)))
				default:
					ks = append(ks, "other")
				}
			}
			sort.Strings(ks)
			if len(ks) == 0 {
				return "ok empty"
			}
			return "ok " + strings.Join(ks, ",")
		}
		ans := f(m.GetMap(1))
		if o := f(cose.Headers(m).GetMap(1)); o != ans {
			return "WRAPPER-DISAGREES " + ans + " vs " + o
		}
		if o := f(cwt.ClaimsMap(m).GetMap(1)); o != ans {
			return "WRAPPER-DISAGREES " + ans + " vs " + o
		}
		if o := f(m.GetMap(2)); o != "ok nil" {
			return "ABSENT-NOT-NIL"
		}
		return ans
	case "map.toint":
		v, _ := parseVal(a, 0)
		n, err := key.ToInt(v)
		return resStr(n, err, strconv.Itoa)
	}
	// accessors on a one-entry map {1: v}; `a` = absent
	m := key.CoseMap{}
	if len(a) > 0 && a[0] != "a" {
		v, _ := parseVal(a, 0)
		m[1] = v
	}
	// the typed views (cose.Headers, cwt.ClaimsMap, key.Key) answer through wrappers: they must agree with CoseMap
	h, cm, kk := cose.Headers(m), cwt.ClaimsMap(m), key.Key(m)
	same := func(ans string, others ...string) string {
		for _, o := range others {
			if o != ans {
				return "WRAPPER-DISAGREES " + ans + " vs " + o
			}
		}
		if h.Has(1) != m.Has(1) || cm.Has(1) != m.Has(1) || kk.Has(1) != m.Has(1) || fmt.Sprint(h.Get(1)) != fmt.Sprint(m.Get(1)) ||
			fmt.Sprint(cm.Get(1)) != fmt.Sprint(m.Get(1)) || fmt.Sprint(kk.Get(1)) != fmt.Sprint(m.Get(1)) {
			return "WRAPPER-DISAGREES Has/Get"
		}
		return ans
	}
	switch op {
	case "map.getint":
		f := func(v int, err error) string { return resStr(v, err, strconv.Itoa) }
		return same(f(m.GetInt(1)), f(h.GetInt(1)), f(cm.GetInt(1)), f(kk.GetInt(1)))
	case "map.getint64":
		f := func(v int64, err error) string {
			return resStr(v, err, func(x int64) string { return strconv.FormatInt(x, 10) })
		}
		return same(f(m.GetInt64(1)), f(h.GetInt64(1)), f(cm.GetInt64(1)), f(kk.GetInt64(1)))
	case "map.getuint64":
		f := func(v uint64, err error) string {
			return resStr(v, err, func(x uint64) string { return strconv.FormatUint(x, 10) })
		}
		return same(f(m.GetUint64(1)), f(h.GetUint64(1)), f(cm.GetUint64(1)), f(kk.GetUint64(1)))
	case "map.getbytes":
		f := func(v []byte, err error) string { return resStr(v, err, hxOpt) }
		return same(f(m.GetBytes(1)), f(h.GetBytes(1)), f(cm.GetBytes(1)), f(kk.GetBytes(1)))
	case "map.getbool":
		f := func(v bool, err error) string { return resStr(v, err, strconv.FormatBool) }
		return same(f(m.GetBool(1)), f(h.GetBool(1)), f(cm.GetBool(1)), f(kk.GetBool(1)))
	case "map.getstring":
		f := func(v string, err error) string {
			return resStr(v, err, func(s string) string { return hx([]byte(s)) })
		}
		return same(f(m.GetString(1)), f(h.GetString(1)), f(cm.GetString(1)), f(kk.GetString(1)))
	case "map.set":
		// map.set <label value> : does Set accept the label?  answer: normalised label
		mm := key.CoseMap{}
		// the typed views set through the same function: same acceptance, same encoding afterwards
		hv, cv, kv := cose.Headers{}, cwt.ClaimsMap{}, key.Key{}
		e0, e1, e2, e3 := mm.Set(mustVal(a), 7), hv.Set(mustVal(a), 7), cv.Set(mustVal(a), 7), kv.Set(mustVal(a), 7)
		if (e0 == nil) != (e1 == nil) || (e0 == nil) != (e2 == nil) || (e0 == nil) != (e3 == nil) {
			return "WRAPPER-DISAGREES Set"
		}
		if e0 == nil && (string(hv.Bytesify()) != string(mm.Bytesify()) || string(cv.Bytesify()) != string(mm.Bytesify()) ||
			string(kv.Bytesify()) != string(mm.Bytesify()) || len(mm.Bytesify()) == 0) {
			return "WRAPPER-DISAGREES Bytesify"
		}
		if err := e0; err != nil {
			return "err"
		}
		var ks []string
		for k := range mm {
			switch x := k.(type) {
			case int:
				ks = append(ks, "int:"+strconv.Itoa(x))
			case string:
				ks = append(ks, "t:"+hx([]byte(x)))
			default:
				ks = append(ks, "other")
			}
		}
		sort.Strings(ks)
		return "ok " + ks[0]
	}
	return "unknown-op"
}

func mustVal(a []string) any {
	v, _ := parseVal(a, 0)
	return v
}

func min1(n int) int {
	if n > 0 {
		return 1
	}
	return 0
}

func genMap(r *rand.Rand, n int) []string {
	var out, extra []string // extra: appended after the rest so that the fixed slots below keep their positions
	scalar := func() string {
		switch r.Intn(8) {
		case 0, 1, 2:
			return genIntTok(r)
		case 3:
			return genBytesTok(r)
		case 4:
			return genTextTok(r)
		case 5:
			return []string{"T", "F", "nil", "f:1.5"}[r.Intn(4)]
		case 6:
			return "alg:" + strconv.Itoa(r.Intn(100)-50)
		default:
			return genValTok(r, 1)
		}
	}
	accs := []string{"map.getint", "map.getint64", "map.getuint64", "map.getbytes", "map.getbool", "map.getstring", "map.toint", "map.set", "map.getmap"}
	for i := 0; i < n; i++ {
		// accessor op
		op := accs[r.Intn(len(accs))]
		if op == "map.getmap" && r.Intn(4) != 0 { // a label map whose labels come in every Go kind, in and out of range
			toks := []string{"{"}
			used := map[string]bool{}
			for j := r.Intn(5); j > 0; j-- {
				var l, id string
				switch r.Intn(6) {
				case 0:
					tx := textSamples[r.Intn(len(textSamples))]
					l, id = "t:"+hx(tx), "t"+string(tx)
				case 1:
					v := []int64{1 << 31, -(1 << 31) - 1, 1<<31 - 1, -(1 << 31), 1 << 40}[r.Intn(5)]
					l, id = "i64:"+strconv.FormatInt(v, 10), strconv.FormatInt(v, 10)
				case 2:
					v := []uint64{1 << 31, 1<<31 - 1, 1<<64 - 1}[r.Intn(3)]
					l, id = "u64:"+strconv.FormatUint(v, 10), strconv.FormatUint(v, 10)
				default:
					v := int64(r.Intn(60) - 20)
					kinds := []string{"int", "i8", "i16", "i32", "i64", "alg"}
					if v >= 0 {
						kinds = append(kinds, "u", "u8", "u16", "u32", "u64")
					}
					l, id = kinds[r.Intn(len(kinds))]+":"+strconv.FormatInt(v, 10), strconv.FormatInt(v, 10)
				}
				if used[id] {
					continue
				}
				used[id] = true
				toks = append(toks, l, scalar())
			}
			if r.Intn(12) == 0 { // a label of a kind that is none
				toks = append(toks, []string{"T", "nil", "f:1.5", "F"}[r.Intn(4)], "int:1")
			}
			out = append(out, op+" "+strings.Join(append(toks, "}"), " "))
		} else if r.Intn(15) == 0 && op != "map.toint" && op != "map.set" {
			out = append(out, op+" a")
		} else {
			out = append(out, op+" "+scalar())
		}
		// unmarshal op: a CBOR map with labels of all classes
		c := &cnode{mt: 5}
		nent := r.Intn(6)
		seen := map[string]bool{}
		for j := 0; j < nent; j++ {
			var k *cnode
			switch r.Intn(12) {
			case 0, 1, 2, 3:
				k = &cnode{mt: 0, n: uint64(r.Intn(50))}
			case 4, 5:
				k = &cnode{mt: 1, n: uint64(r.Intn(50))}
			case 6, 7:
				k = &cnode{mt: 3, b: textSamples[r.Intn(len(textSamples))]}
			case 8:
				b := []uint64{1<<31 - 1, 1 << 31, 1<<31 + 1, 1<<32 - 1, 1 << 32, 1<<63 - 1, 1 << 63, 1<<64 - 1}
				k = &cnode{mt: r.Intn(2), n: b[r.Intn(len(b))]}
			case 9:
				k = genTree(r, 1, true)
			default:
				k = &cnode{mt: 0, n: genUint(r)}
			}
			id := string(k.emit(nil, r, nil))
			if seen[id] {
				continue
			}
			seen[id] = true
			c.kids = append(c.kids, k, genTree(r, 2, r.Intn(6) == 0))
		}
		var top *cnode = c
		switch r.Intn(20) {
		case 0:
			top = &cnode{mt: 6, n: []uint64{61, 16, 0, 1, 2, 55799}[r.Intn(6)], kids: []*cnode{c}}
		case 1:
			top = genTree(r, 2, true)
		case 2:
			top = &cnode{mt: 7, n: 22 + uint64(r.Intn(2))}
		}
		var o *emitOpts
		if r.Intn(4) == 0 {
			o = &emitOpts{nonShortest: 0.3, indef: 0.03}
		}
		b := top.emit(nil, r, o)
		if r.Intn(8) == 0 {
			b = mutateBytes(r, b)
		}
		out = append(out, "map.unmarshal "+hx(b), "map.views "+hx(b))
		if i%3 == 0 { // the same octets through the text and JSON forms: well-formed hex, and malformed in every small way
			hs := hex.EncodeToString(b)
			forms := []string{hs, strings.ToUpper(hs), hs + "0", hs + "zz", " " + hs, hs + "\n", "0x" + hs, "", hs[:len(hs)-min1(len(hs))]}
			tf := forms[(i/3)%len(forms)]
			if (i/3)%2 == 1 { // every second one well-formed hex, in either case
				tf = forms[(i/6)%2]
			}
			jforms := []string{`"` + hs + `"`, `"` + strings.ToUpper(hs) + `"`, hs, `"` + hs, hs + `"`, `null`, `""`, `"` + hs + `" `, `'` + hs + `'`, `"` + hs + `0"`, `"\"` + hs + `"`}
			jf := jforms[(i/3)%len(jforms)]
			if (i/3)%2 == 1 {
				jf = jforms[(i/6)%2]
			}
			extra = append(extra, "map.untext "+hx([]byte(tf)), "map.unjson "+hx([]byte(jf)))
		}
		if len(out)%14 == 0 { // registered claim / header labels holding floats (NumericDate may be a float), tagged values, tagged labels
			fixed := []string{
				"a104fb41d954ffc4000000", "a204fb41d954ffc430000005fa4eca9a80", "a106f97c00", "a30418640518650618c8",
				"a104c11a6553ff10", "a1d8640127", "a2d86401270426", "a101d8641827", "a104fb7ff0000000000000", "a105f9fc00",
			}
			fx := fixed[(len(out)/14)%len(fixed)]
			out = append(out, "map.unmarshal "+fx, "map.views "+fx)
			tagged := []string{
				"a107d82550000102030405060708090a0b0c0d0e0f", "a10ad82068687474703a2f2f61", "a201261828d903e8820102", "a120d8184101",
				"a104da0001000000", "a105d825d8206178", "a1636a7469d8255000112233445566778899aabbccddeeff",
			}
			out = append(out, "map.tagkeep "+tagged[(len(out)/14)%len(tagged)])
		}
	}
	return append(out, extra...)
}
