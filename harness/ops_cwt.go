package main

import (
	"fmt"
	"math"
	"math/rand"
	"strconv"
	"strings"
	"time"

	"github.com/ldclabs/cose/cwt"
	"github.com/ldclabs/cose/iana"
	"github.com/ldclabs/cose/key"
)

func init() {
	register(&family{name: "cwt", gen: genCwt, exec: execCwt})
}

func cwtReason(err error) string {
	if err == nil {
		return "ok"
	}
	m := err.Error()
	switch {
	case strings.Contains(m, "doesn't have an expiration"):
		return "err noExp"
	case strings.Contains(m, "invalid exp claim"):
		return "err badExp"
	case strings.Contains(m, "token has expired"):
		return "err expired"
	case strings.Contains(m, "invalid nbf claim"):
		return "err badNbf"
	case strings.Contains(m, "cannot be used yet"):
		return "err notYet"
	case strings.Contains(m, "invalid iat claim in the future"):
		return "err iatFuture"
	case strings.Contains(m, "invalid iat claim"):
		return "err badIat"
	case strings.Contains(m, "invalid iss claim"):
		return "err badIss"
	case strings.Contains(m, "issuer mismatch"):
		return "err issMismatch"
	case strings.Contains(m, "invalid aud claim"):
		return "err badAud"
	case strings.Contains(m, "audience mismatch"):
		return "err audMismatch"
	case strings.Contains(m, "clock skew too large"):
		return "err skew"
	}
	return "err other:" + firstLine(m)
}

// args: nowS nowN skew am ip ei ea exp nbf iat iss aud   (claims: `a` absent or a value token)
func execCwt(op string, a []string) string {
	if op == "cwt.wallclock" {
		// cwt.wallclock: a validator without FixedNow (the production configuration) reads the clock at every call: one
		// validator, a token that expires / becomes valid within two seconds, asked before and after that moment,
		// struct and map path; a fresh validator must agree with the reused one.  (The only op that sleeps, ~2-3 s.)
		v, err := cwt.NewValidator(&cwt.ValidatorOpts{})
		if err != nil {
			return "err"
		}
		t := uint64(time.Now().Unix()) + 2
		expiring, starting := &cwt.Claims{Expiration: t}, &cwt.Claims{Expiration: t + 3600, NotBefore: t}
		mapOf := func(c *cwt.Claims) cwt.ClaimsMap {
			m := cwt.ClaimsMap{iana.CWTClaimExp: c.Expiration}
			if c.NotBefore != 0 {
				m[iana.CWTClaimNbf] = c.NotBefore
			}
			return m
		}
		if v.Validate(expiring) != nil || v.ValidateMap(mapOf(expiring)) != nil || v.Validate(starting) == nil || v.ValidateMap(mapOf(starting)) == nil {
			return "first-use-wrong"
		}
		for uint64(time.Now().Unix()) <= t {
			time.Sleep(100 * time.Millisecond)
		}
		fresh, _ := cwt.NewValidator(&cwt.ValidatorOpts{})
		for _, vv := range []*cwt.Validator{v, fresh} {
			if vv.Validate(expiring) == nil || vv.ValidateMap(mapOf(expiring)) == nil {
				return "EXPIRED-TOKEN-STILL-ACCEPTED"
			}
			if vv.Validate(starting) != nil || vv.ValidateMap(mapOf(starting)) != nil {
				return "VALID-TOKEN-STILL-REFUSED"
			}
		}
		return "ok"
	}
	if len(a) != 12 {
		return "bad-op"
	}
	nowS, _ := strconv.ParseInt(a[0], 10, 64)
	nowN, _ := strconv.ParseInt(a[1], 10, 64)
	skew, _ := strconv.ParseInt(a[2], 10, 64)
	opts := &cwt.ValidatorOpts{
		ExpectedIssuer:         string(unhx(a[5])),
		ExpectedAudience:       string(unhx(a[6])),
		AllowMissingExpiration: a[3] == "1",
		ExpectIssuedInThePast:  a[4] == "1",
		ClockSkew:              time.Duration(skew),
		FixedNow:               time.Unix(nowS, nowN),
	}
	if opts.FixedNow.IsZero() {
		return "bad-op" // the library would read the wall clock
	}
	v, err := cwt.NewValidator(opts)
	// the validator is configured at construction: whatever the caller does with its options object afterwards
	// (another skew beyond the cap, other expectations, another clock) must not reach it
	*opts = cwt.ValidatorOpts{ExpectedIssuer: "someone-else", ExpectedAudience: "elsewhere", AllowMissingExpiration: !opts.AllowMissingExpiration,
		ExpectIssuedInThePast: !opts.ExpectIssuedInThePast, ClockSkew: 1000 * time.Hour, FixedNow: time.Unix(1, 0)}
	mapAnswer := func() error {
		cm := cwt.ClaimsMap{}
		for i, label := range []int{iana.CWTClaimExp, iana.CWTClaimNbf, iana.CWTClaimIat, iana.CWTClaimIss, iana.CWTClaimAud} {
			if a[7+i] != "a" {
				cm[label] = cwtVal(a[7+i])
			}
		}
		return v.ValidateMap(cm)
	}
	switch op {
	case "cwt.validatemap":
		if err != nil {
			return cwtReason(err)
		}
		return cwtReason(mapAnswer())
	case "cwt.spec":
		if err != nil {
			return "refused"
		}
		if mapAnswer() == nil {
			return "accept"
		}
		return "reject"
	case "cwt.validate":
		if err != nil {
			return cwtReason(err)
		}
		c := &cwt.Claims{}
		for i := 0; i < 3; i++ {
			if a[7+i] == "a" {
				continue
			}
			val, _ := parseVal(a[7+i:8+i], 0)
			u, ok := val.(uint64)
			if !ok {
				return "bad-op"
			}
			switch i {
			case 0:
				c.Expiration = u
			case 1:
				c.NotBefore = u
			case 2:
				c.IssuedAt = u
			}
		}
		for i := 3; i < 5; i++ {
			if a[7+i] == "a" {
				continue
			}
			val, _ := parseVal(a[7+i:8+i], 0)
			s, ok := val.(string)
			if !ok {
				return "bad-op"
			}
			if i == 3 {
				c.Issuer = s
			} else {
				c.Audience = s
			}
		}
		return cwtReason(v.Validate(c))
	}
	return "unknown-op"
}

// cwtVal: one token per claim value; compound values in a compact one-token form:
//
//	L:<tok>+<tok>…  an array, LL:<tok>+…  an array holding one array, M:<tok>+<tok>  a one-entry map
func cwtVal(tok string) any {
	list := func(body string) []any {
		var l []any
		for _, t := range strings.Split(body, "+") {
			v, _ := parseVal([]string{t}, 0)
			l = append(l, v)
		}
		return l
	}
	switch {
	case strings.HasPrefix(tok, "LL:"):
		return []any{list(tok[3:])}
	case strings.HasPrefix(tok, "L:"):
		return list(tok[2:])
	case strings.HasPrefix(tok, "M:"):
		kv := list(tok[2:])
		return key.CoseMap{kv[0]: kv[1]}
	}
	v, _ := parseVal([]string{tok}, 0)
	return v
}

func genCwt(r *rand.Rand, n int) []string {
	out := []string{"cwt.wallclock"}
	nows := [][2]int64{{1700000000, 0}, {1700000000, 999999999}, {1, 500}, {1 << 31, 1}, {1 << 32, 0}, {4102444800, 123456789}, {601, 0}, {1 << 40, 7}}
	skews := []int64{0, 1, 1000000000, 60000000000, 600000000000, 600000000001, -1, -1000000000, -600000000000, 999999999, 1500000000, -1500000000, 900000000000, math.MinInt64 + 1}
	invalids := []string{"i64:-1", "int:-5", "f:1.5", "t:3137", "nil", "b:01", "T", "i8:-128", "f:1700000000"}
	// (index 0..3: the text / absent values; then values of other types, incl. RFC 7519-style arrays of audiences, which
	// RFC 8392 tokens may carry and this library refuses as "invalid")
	strs := []string{"a", "t:-", "t:697373", "t:6f74686572", "int:3", "nil", "b:697373", "L:t:697373", "L:int:1", "L:nil+t:697373", "L:t:61+b:01", "LL:t:697373", "M:int:1+t:697373"}
	for len(out) < 3*n {
		now := nows[r.Intn(len(nows))]
		if r.Intn(4) == 0 {
			now = [2]int64{r.Int63n(1 << 34), r.Int63n(1000000000)}
		}
		skew := skews[r.Intn(len(skews))]
		if r.Intn(5) == 0 {
			skew = r.Int63n(600000000000)
		}
		sk := skew / 1000000000
		lattice := []uint64{0, 1, uint64(now[0]), uint64(now[0] + 1), uint64(now[0] - 1),
			uint64(now[0] + sk), uint64(now[0] + sk + 1), uint64(now[0] + sk - 1),
			uint64(now[0] - sk), uint64(now[0] - sk + 1), uint64(now[0] - sk - 1),
			1 << 31, 1 << 32, 1 << 62, 1<<63 - 62135596800 - 1, 1<<63 - 62135596800, 1<<63 - 62135596800 + 1,
			1<<63 - 2, 1<<63 - 1, 1 << 63, 1<<64 - 1, 1<<64 - 62135596800, 1<<64 - 62135596800 - 1}
		timeTok := func(structOnly bool) string {
			k := r.Intn(12)
			switch {
			case k == 0:
				return "a"
			case k == 1 && !structOnly:
				return invalids[r.Intn(len(invalids))]
			case k <= 8:
				v := lattice[r.Intn(len(lattice))]
				if structOnly {
					return fmt.Sprintf("u64:%d", v)
				}
				return uintToken(r.Intn, v)
			default:
				v := uint64(now[0]) + uint64(r.Int63n(4000)) - 2000
				if r.Intn(3) == 0 {
					v = r.Uint64()
				}
				if structOnly {
					return fmt.Sprintf("u64:%d", v)
				}
				return uintToken(r.Intn, v)
			}
		}
		if r.Intn(2) == 0 {
			// near-valid stream: legal skew, exp shortly after now-skew, nbf/iat shortly before now+skew, matching text
			skew = []int64{0, 1, 1000000000, 60000000000, 600000000000, -1000000000, 999999999, 1500000000}[r.Intn(8)]
			sk = skew / 1000000000
			near := func(base int64, structOnly bool) string {
				if r.Intn(6) == 0 {
					return "a"
				}
				v := uint64(base + int64(r.Intn(5)) - 2)
				if r.Intn(4) == 0 {
					v = uint64(base + int64(r.Intn(100000)) - 50000)
				}
				if structOnly {
					return fmt.Sprintf("u64:%d", v)
				}
				return uintToken(r.Intn, v)
			}
			am, ip := r.Intn(2), r.Intn(2)
			ei := []string{"-", "697373"}[r.Intn(2)]
			iss := []string{"a", "t:697373", "t:697373", "t:6f74686572"}[r.Intn(4)]
			expBase := now[0] - sk + 1
			if r.Intn(3) == 0 {
				expBase = now[0] + 3600
			}
			tail := fmt.Sprintf("%d %d %d %d %d %s - %s %s %s %s a", now[0], now[1], skew, am, ip, ei,
				near(expBase, false), near(now[0]+sk, false), near(now[0]+sk, false), iss)
			out = append(out, "cwt.validatemap "+tail, "cwt.spec "+tail)
			out = append(out, fmt.Sprintf("cwt.validate %d %d %d %d %d %s - %s %s %s %s a", now[0], now[1], skew, am, ip, ei,
				near(expBase, true), near(now[0]+sk, true), near(now[0]+sk, true), iss))
			continue
		}
		exps := []string{"-", "697373"}
		ei, ea := exps[r.Intn(2)], exps[r.Intn(2)]
		am, ip := r.Intn(2), r.Intn(2)
		// map path (mirror + spec)
		iss, aud := strs[r.Intn(len(strs))], strs[r.Intn(len(strs))]
		if r.Intn(2) == 0 {
			iss, aud = strs[r.Intn(4)], strs[r.Intn(4)]
		}
		tail := fmt.Sprintf("%d %d %d %d %d %s %s %s %s %s %s %s", now[0], now[1], skew, am, ip, ei, ea,
			timeTok(false), timeTok(false), timeTok(false), iss, aud)
		out = append(out, "cwt.validatemap "+tail, "cwt.spec "+tail)
		// struct path
		st := func() string {
			s := strs[r.Intn(4)]
			if s == "t:-" {
				return "a"
			}
			return s
		}
		out = append(out, fmt.Sprintf("cwt.validate %d %d %d %d %d %s %s %s %s %s %s %s", now[0], now[1], skew, am, ip, ei, ea,
			timeTok(true), timeTok(true), timeTok(true), st(), st()))
	}
	return out
}
