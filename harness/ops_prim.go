package main

import (
	"crypto/aes"
	gohmac "crypto/hmac"
	"crypto/sha256"
	"crypto/sha512"
	"fmt"
	"math/rand"
	"strconv"
	"strings"

	"github.com/ldclabs/cose/iana"
	"github.com/ldclabs/cose/key"
	"github.com/ldclabs/cose/key/aesccm"
	"github.com/ldclabs/cose/key/aesgcm"
	"github.com/ldclabs/cose/key/aesmac"
	"github.com/ldclabs/cose/key/chacha20poly1305"
	"github.com/ldclabs/cose/key/hkdf"
	"github.com/ldclabs/cose/key/hmac"
)

func init() {
	register(&family{name: "prim", gen: genPrim, exec: execPrim})
	subGens["prim:mac"] = genPrimMac
	subGens["prim:aead"] = genPrimAead
	subGens["prim:kdf"] = genPrimKdf
	propFamilies["C11"] = []string{"prim:mac"}
	propFamilies["C12"] = []string{"prim:aead"}
	propFamilies["C13"] = []string{"prim:kdf"}
}

var hmacAlgs = []int{iana.AlgorithmHMAC_256_64, iana.AlgorithmHMAC_256_256, iana.AlgorithmHMAC_384_384, iana.AlgorithmHMAC_512_512}
var aesmacAlgs = []int{iana.AlgorithmAES_MAC_128_64, iana.AlgorithmAES_MAC_256_64, iana.AlgorithmAES_MAC_128_128, iana.AlgorithmAES_MAC_256_128}
var gcmAlgs = []int{iana.AlgorithmA128GCM, iana.AlgorithmA192GCM, iana.AlgorithmA256GCM}
var ccmAlgs = []int{iana.AlgorithmAES_CCM_16_64_128, iana.AlgorithmAES_CCM_16_64_256, iana.AlgorithmAES_CCM_64_64_128, iana.AlgorithmAES_CCM_64_64_256,
	iana.AlgorithmAES_CCM_16_128_128, iana.AlgorithmAES_CCM_16_128_256, iana.AlgorithmAES_CCM_64_128_128, iana.AlgorithmAES_CCM_64_128_256}

func isIn(x int, l []int) bool {
	for _, y := range l {
		if x == y {
			return true
		}
	}
	return false
}

// the key is built as a map (what a decoded key is) and handed to New, so that CheckKey — not only KeyFrom — decides
// about sizes; KeyFrom must agree about acceptance
func symKey(alg int, k []byte) key.Key {
	// the alg member in the Go kinds a key can hold it in (a literal, a decoded key, the typed constant); which one
	// is used depends on the key octets only, so that both sides see the same operation
	var a any = alg
	sel := len(k)
	if len(k) > 0 {
		sel += int(k[0])
	}
	switch sel % 4 {
	case 1:
		a = int64(alg)
	case 2:
		if alg >= 0 {
			a = uint64(alg)
		}
	case 3:
		a = key.Alg(alg)
	}
	out := key.Key{iana.KeyParameterKty: iana.KeyTypeSymmetric, iana.KeyParameterAlg: a, iana.SymmetricKeyParameterK: append([]byte{}, k...)}
	// optional members that change nothing: the family's complete key_ops list in each representation a key can hold it
	// in, and a kid — again chosen by the key octets only
	o1, o2 := iana.KeyOperationEncrypt, iana.KeyOperationDecrypt
	if isIn(alg, hmacAlgs) || isIn(alg, aesmacAlgs) {
		o1, o2 = iana.KeyOperationMacCreate, iana.KeyOperationMacVerify
	}
	sum := 0
	for _, b := range k {
		sum += int(b)
	}
	switch sum % 7 {
	case 1:
		out[iana.KeyParameterKeyOps] = key.Ops{o1, o2}
	case 2:
		out[iana.KeyParameterKeyOps] = []int{o2, o1}
	case 3:
		out[iana.KeyParameterKeyOps] = []any{int64(o1), uint64(o2)}
	case 4:
		out[iana.KeyParameterKeyOps] = []any{o1, o2, o1}
		out[iana.KeyParameterKid] = []byte{1, 2, 3}
	}
	return out
}

var errKeyFromDisagrees = fmt.Errorf("keyfrom-disagrees")

func macerFor(alg int, k []byte) (key.MACer, error) {
	var m key.MACer
	var err, err2 error
	switch {
	case isIn(alg, hmacAlgs):
		m, err = hmac.New(symKey(alg, k))
		_, err2 = hmac.KeyFrom(alg, k)
	case isIn(alg, aesmacAlgs):
		m, err = aesmac.New(symKey(alg, k))
		_, err2 = aesmac.KeyFrom(alg, k)
	default:
		return nil, fmt.Errorf("alg")
	}
	if (err == nil) != (err2 == nil) {
		return nil, errKeyFromDisagrees
	}
	return m, err
}

func encryptorFor(alg int, k []byte) (key.Encryptor, error) {
	var e key.Encryptor
	var err, err2 error
	switch {
	case isIn(alg, gcmAlgs):
		e, err = aesgcm.New(symKey(alg, k))
		_, err2 = aesgcm.KeyFrom(alg, k)
	case isIn(alg, ccmAlgs):
		e, err = aesccm.New(symKey(alg, k))
		_, err2 = aesccm.KeyFrom(alg, k)
	case alg == iana.AlgorithmChaCha20Poly1305:
		e, err = chacha20poly1305.New(symKey(alg, k))
		_, err2 = chacha20poly1305.KeyFrom(k)
	default:
		return nil, fmt.Errorf("alg")
	}
	if (err == nil) != (err2 == nil) {
		return nil, errKeyFromDisagrees
	}
	return e, err
}

func okBytes(b []byte, err error) string {
	if err != nil {
		return "err"
	}
	return "ok " + hx(b)
}

func execPrim(op string, a []string) string {
	switch op {
	case "prim.mac":
		alg, _ := strconv.Atoi(a[0])
		m, err := macerFor(alg, unhx(a[1]))
		if err == errKeyFromDisagrees {
			return "keyfrom-disagrees"
		}
		if err != nil {
			return "err"
		}
		sl := newSlack(unhx(a[2]))
		t, e := m.MACCreate(sl.views[0])
		if !sl.intact() {
			return "ARGUMENT-WRITTEN"
		}
		return okBytes(t, e)
	case "prim.macverify":
		alg, _ := strconv.Atoi(a[0])
		m, err := macerFor(alg, unhx(a[1]))
		if err != nil {
			return "err"
		}
		// the usual receive buffer: message || tag in one allocation, each view with room behind it
		sl := newSlack(unhx(a[2]), unhx(a[3]))
		verr := m.MACVerify(sl.views[0], sl.views[1])
		if !sl.intact() {
			return "ARGUMENT-WRITTEN"
		}
		if verr != nil {
			return "err"
		}
		return "ok"
	case "prim.mac2":
		// prim.mac2 <alg> <key> <data1> <data2>: one MACer, two messages; the second tag is answered (and must verify
		// on the same object).  Specification: as prim.mac <alg> <key> <data2> on a fresh MACer.
		alg, _ := strconv.Atoi(a[0])
		m, err := macerFor(alg, unhx(a[1]))
		if err != nil {
			return "err"
		}
		t1, e1 := m.MACCreate(unhx(a[2]))
		t1copy := append([]byte{}, t1...)
		if e1 == nil {
			m.MACVerify(unhx(a[2]), t1)
			m.MACVerify(unhx(a[3]), t1)
		}
		d2 := unhx(a[3])
		t2, e2 := m.MACCreate(d2)
		if e2 == nil && m.MACVerify(d2, t2) != nil {
			return "OWN-TAG-REFUSED"
		}
		if string(t1) != string(t1copy) {
			return "EARLIER-RESULT-OVERWRITTEN"
		}
		if string(d2) != string(unhx(a[3])) {
			return "ARGUMENT-WRITTEN"
		}
		return okBytes(t2, e2)
	case "prim.macalg":
		// prim.macalg <alg> <key> <alg2> <data>: a MACer made for <alg>, whose key's alg member is then set to <alg2> (keys are
		// live maps).  Whatever the implementation makes of that — go on as constructed, or refuse — it neither panics nor
		// hands out a tag that is neither: every later MACCreate is refused or gives the tag of the algorithm it was made for.
		alg, _ := strconv.Atoi(a[0])
		alg2, _ := strconv.Atoi(a[2])
		m, err := macerFor(alg, unhx(a[1]))
		if err != nil {
			return "err"
		}
		ref, e1 := m.MACCreate(unhx(a[3]))
		if e1 != nil {
			return "err"
		}
		ref = append([]byte{}, ref...)
		m.Key()[iana.KeyParameterAlg] = alg2
		t2, e2 := m.MACCreate(unhx(a[3]))
		if e2 == nil && string(t2) != string(ref) {
			return "TAG-FOLLOWS-THE-CHANGED-ALG " + hx(t2)
		}
		if m.MACVerify(unhx(a[3]), flipBit(rand.New(rand.NewSource(int64(len(ref)))), ref)) == nil {
			return "ALTERED-TAG-ACCEPTED"
		}
		return "ok"
	case "prim.macrekey":
		// prim.macrekey <alg> <key1> <key2> <data> (HMAC, equal key sizes): the key octets held in the key map are
		// overwritten in place between two calls on one MACer; the library reads the key on every call, so the
		// second tag is the one under key2 (mirror of the current behaviour: no stale keyed state)
		alg, _ := strconv.Atoi(a[0])
		k1, k2 := unhx(a[1]), unhx(a[2])
		kk := symKey(alg, k1)
		m, err := hmac.New(kk)
		if err != nil {
			return "err"
		}
		m.MACCreate(unhx(a[3]))
		kb, _ := kk.GetBytes(iana.SymmetricKeyParameterK)
		copy(kb, k2)
		return okBytes(m.MACCreate(unhx(a[3])))
	case "prim.aead2":
		// prim.aead2 <alg> <key> <n1> <p1> <a1> <n2> <p2> <a2>: one Encryptor, an encryption and a failing decryption
		// with the first triple, then the second encryption is answered.  Specification: as prim.aead.enc on a fresh one.
		alg, _ := strconv.Atoi(a[0])
		e, err := encryptorFor(alg, unhx(a[1]))
		if err == errKeyFromDisagrees {
			return "keyfrom-disagrees"
		}
		if err != nil {
			return "err"
		}
		c1, e1 := e.Encrypt(unhx(a[2]), unhx(a[3]), unhx(a[4]))
		c1copy := append([]byte{}, c1...)
		var p1, p1copy []byte
		if e1 == nil {
			e.Decrypt(unhx(a[2]), flipBit(rand.New(rand.NewSource(1)), c1), unhx(a[4]))
			var e2 error
			if p1, e2 = e.Decrypt(unhx(a[2]), c1, unhx(a[4])); e2 != nil || string(p1) != string(unhx(a[3])) {
				return "OWN-CIPHERTEXT-REFUSED"
			}
			p1copy = append([]byte{}, p1...)
			if string(c1) != string(c1copy) {
				return "DECRYPT-WROTE-INTO-ITS-INPUT"
			}
		}
		n2, pt2, ad2 := unhx(a[5]), unhx(a[6]), unhx(a[7])
		c2, e2 := e.Encrypt(n2, pt2, ad2)
		if e2 == nil {
			if p, e3 := e.Decrypt(n2, c2, ad2); e3 != nil || string(p) != string(pt2) {
				return "OWN-CIPHERTEXT-REFUSED"
			}
		}
		// what earlier calls returned belongs to the caller: later calls do not touch it; arguments are read only
		if string(c1) != string(c1copy) || string(p1) != string(p1copy) {
			return "EARLIER-RESULT-OVERWRITTEN"
		}
		if string(n2) != string(unhx(a[5])) || string(pt2) != string(unhx(a[6])) || string(ad2) != string(unhx(a[7])) {
			return "ARGUMENT-WRITTEN"
		}
		return okBytes(c2, e2)
	case "prim.aeadalg":
		// prim.aeadalg <alg> <key> <alg2> <nonce> <pt> <aad>: an Encryptor made for <alg>, whose key's alg member is then set
		// to <alg2> (keys are live maps: Encryptor.Key() hands out the map the implementation reads); one encryption, which
		// the same Encryptor must also decrypt
		alg, _ := strconv.Atoi(a[0])
		alg2, _ := strconv.Atoi(a[2])
		e, err := encryptorFor(alg, unhx(a[1]))
		if err == errKeyFromDisagrees {
			return "keyfrom-disagrees"
		}
		if err != nil {
			return "err"
		}
		e.Key()[iana.KeyParameterAlg] = alg2
		ct, err := e.Encrypt(unhx(a[3]), unhx(a[4]), unhx(a[5]))
		if err == nil {
			if p, e2 := e.Decrypt(unhx(a[3]), ct, unhx(a[5])); e2 != nil || string(p) != string(unhx(a[4])) {
				return "OWN-CIPHERTEXT-REFUSED"
			}
		} else if _, e2 := e.Decrypt(unhx(a[3]), append(unhx(a[4]), make([]byte, 16)...), unhx(a[5])); e2 == nil {
			return "DECRYPTS-WHAT-IT-REFUSES-TO-ENCRYPT"
		}
		return okBytes(ct, err)
	case "prim.aead.enc":
		alg, _ := strconv.Atoi(a[0])
		e, err := encryptorFor(alg, unhx(a[1]))
		if err == errKeyFromDisagrees {
			return "keyfrom-disagrees"
		}
		if err != nil {
			return "err"
		}
		sl := newSlack(unhx(a[2]), unhx(a[3]), unhx(a[4]))
		ct, eerr := e.Encrypt(sl.views[0], sl.views[1], sl.views[2])
		if !sl.intact() {
			return "ARGUMENT-WRITTEN"
		}
		return okBytes(ct, eerr)
	case "prim.aead.dec":
		alg, _ := strconv.Atoi(a[0])
		e, err := encryptorFor(alg, unhx(a[1]))
		if err != nil {
			return "err"
		}
		sl := newSlack(unhx(a[2]), unhx(a[3]), unhx(a[4]))
		pt, derr := e.Decrypt(sl.views[0], sl.views[1], sl.views[2])
		if !sl.intact() {
			return "ARGUMENT-WRITTEN"
		}
		return okBytes(pt, derr)
	case "prim.hkdf256":
		n, _ := strconv.Atoi(a[3])
		return okBytes(hkdf.HKDF256(unhx(a[0]), unhx(a[1]), unhx(a[2]), n))
	case "prim.hkdf512":
		n, _ := strconv.Atoi(a[3])
		return okBytes(hkdf.HKDF512(unhx(a[0]), unhx(a[1]), unhx(a[2]), n))
	case "prim.hkdfaes":
		n, _ := strconv.Atoi(a[2])
		raw := unhx(a[1])
		info := make([]byte, len(raw), len(raw)+16)
		copy(info, raw)
		ans := okBytes(hkdf.HKDFAES(unhx(a[0]), info, n))
		for _, b := range info[:cap(info)][len(info):] {
			if b != 0 {
				return ans + " CALLER-BUFFER-WRITTEN"
			}
		}
		if string(info) != string(raw) {
			return ans + " CALLER-INFO-CHANGED"
		}
		return ans
	case "prim.hkdfaes.read":
		block, err := aes.NewCipher(unhx(a[0]))
		if err != nil {
			return "err"
		}
		// the caller's info slice has spare capacity and is shared with a second, unrelated reader that is read in
		// between; the caller also writes behind the slice's end between reads: none of this may reach the stream
		raw := unhx(a[1])
		backing := make([]byte, len(raw), len(raw)+48)
		copy(backing, raw)
		rd := hkdf.NewAES(block, backing)
		otherBlock, _ := aes.NewCipher(make([]byte, 32))
		decoy := hkdf.NewAES(otherBlock, backing)
		var outs []string
		for _, s := range strings.Split(a[2], ",") {
			n, _ := strconv.Atoi(s)
			buf := make([]byte, n)
			decoy.Read(make([]byte, 33))
			tail := backing[:cap(backing)]
			for j := len(backing); j < len(tail); j++ {
				tail[j] = 0xEE
			}
			if got, err := rd.Read(buf); err != nil || got != n {
				outs = append(outs, "err") // a refused read hands out nothing and leaves the reader where it was: the sequence goes on
				continue
			}
			outs = append(outs, hx(buf))
			for j := range buf { // the caller wipes / reuses what it was handed (io.Reader: p must not be retained)
				buf[j] = 0x77
			}
		}
		return "ok " + strings.Join(outs, ",")
	}
	return "unknown-op"
}

func pick(r *rand.Rand, l []int) int { return l[r.Intn(len(l))] }

func keySizeOf(alg int) int {
	switch alg {
	case iana.AlgorithmHMAC_256_64, iana.AlgorithmHMAC_256_256:
		return 32
	case iana.AlgorithmHMAC_384_384:
		return 48
	case iana.AlgorithmHMAC_512_512:
		return 64
	case iana.AlgorithmAES_MAC_128_64, iana.AlgorithmAES_MAC_128_128, iana.AlgorithmA128GCM,
		iana.AlgorithmAES_CCM_16_64_128, iana.AlgorithmAES_CCM_64_64_128, iana.AlgorithmAES_CCM_16_128_128, iana.AlgorithmAES_CCM_64_128_128:
		return 16
	case iana.AlgorithmA192GCM:
		return 24
	}
	return 32
}

func nonceSizeOf(alg int) int {
	switch alg {
	case iana.AlgorithmAES_CCM_16_64_128, iana.AlgorithmAES_CCM_16_64_256, iana.AlgorithmAES_CCM_16_128_128, iana.AlgorithmAES_CCM_16_128_256:
		return 13
	case iana.AlgorithmAES_CCM_64_64_128, iana.AlgorithmAES_CCM_64_64_256, iana.AlgorithmAES_CCM_64_128_128, iana.AlgorithmAES_CCM_64_128_256:
		return 7
	}
	return 12
}

// message lengths: every residue mod 16 / 64 / 128 around block boundaries, plus CBOR/CCM limits
func msgLen(r *rand.Rand, big bool) int {
	switch r.Intn(11) {
	case 10: // buffer-size boundaries: 2^k (k = 5..14) plus the offsets at which block / header arithmetic changes
		n := (1 << uint(5+r.Intn(10))) + []int{-16, -15, -14, -2, -1, 0, 0, 0, 1, 2, 10, 14, 14, 15, 16}[r.Intn(15)]
		if n < 0 {
			n = 0
		}
		return n
	case 0:
		return 0
	case 1, 2, 3:
		return r.Intn(70)
	case 4, 5:
		return 16*r.Intn(20) + r.Intn(3) - 1 + 1
	case 6:
		return 64*r.Intn(6) + r.Intn(5) - 2 + 2
	case 7:
		return 128*r.Intn(4) + r.Intn(5)
	case 8:
		return r.Intn(3000)
	default:
		if big {
			return []int{65279, 65280, 65281, 65535, 65536, 65537, 70000}[r.Intn(7)]
		}
		return r.Intn(300)
	}
}

func flipBit(r *rand.Rand, b []byte) []byte {
	out := append([]byte{}, b...)
	if len(out) == 0 {
		return []byte{1}
	}
	out[r.Intn(len(out))] ^= 1 << uint(r.Intn(8))
	return out
}

// the untruncated MAC, computed without the library: HMAC from the Go standard library, CBC-MAC by hand
func fullMac(alg int, k, data []byte) []byte {
	switch alg {
	case iana.AlgorithmHMAC_256_64, iana.AlgorithmHMAC_256_256:
		h := gohmac.New(sha256.New, k)
		h.Write(data)
		return h.Sum(nil)
	case iana.AlgorithmHMAC_384_384:
		h := gohmac.New(sha512.New384, k)
		h.Write(data)
		return h.Sum(nil)
	case iana.AlgorithmHMAC_512_512:
		h := gohmac.New(sha512.New, k)
		h.Write(data)
		return h.Sum(nil)
	}
	block, err := aes.NewCipher(k)
	if err != nil {
		return nil
	}
	x := make([]byte, 16)
	for i := 0; i < len(data); i += 16 {
		var b [16]byte
		copy(b[:], data[i:])
		for j := range x {
			x[j] ^= b[j]
		}
		block.Encrypt(x, x)
	}
	return x
}

// library calls made while *generating* follow-up operations must not take the generator down: a panic is an error
// here and is reported on the operation itself when it is executed
func safeBytes(f func() ([]byte, error)) (b []byte, err error) {
	defer func() {
		if r := recover(); r != nil {
			b, err = nil, fmt.Errorf("panic: %v", r)
		}
	}()
	return f()
}

func genPrimMac(r *rand.Rand, n int) []string {
	var out []string
	for i := 0; i < n; i++ {
		alg := pick(r, hmacAlgs)
		if r.Intn(2) == 0 {
			alg = pick(r, aesmacAlgs)
		}
		ks := keySizeOf(alg)
		if r.Intn(8) == 0 { // wrong key sizes 0..80, often another valid AES / HMAC size
			ks = r.Intn(81)
			if r.Intn(2) == 0 {
				ks = []int{16, 24, 32, 48, 64}[r.Intn(5)]
			}
		}
		k := randBytes(r, ks)
		if i%17 == 3 { // patterned keys of the right size, every algorithm in turn
			all := append(append([]int{}, hmacAlgs...), aesmacAlgs...)
			alg = all[(i/17)%len(all)]
			k = patterned(keySizeOf(alg), i/17/len(all))
		}
		data := randBytes(r, msgLen(r, i%50 == 0))
		out = append(out, fmt.Sprintf("prim.mac %d %s %s", alg, hx(k), hx(data)))
		// verification of the right tag and of its mutations
		m, err := macerFor(alg, k)
		if err != nil {
			continue
		}
		tag, err := safeBytes(func() ([]byte, error) { return m.MACCreate(data) })
		if err != nil {
			continue
		}
		var t []byte
		switch r.Intn(9) {
		case 0, 1:
			t = tag
		case 7, 8: // the tag followed by the true continuation of the untruncated MAC (any longer prefix of it)
			full := fullMac(alg, k, data)
			if len(full) > len(tag) {
				t = full[:len(tag)+1+r.Intn(len(full)-len(tag))]
			} else {
				t = append(append([]byte{}, tag...), tag...)
			}
		case 2:
			t = tag[:r.Intn(len(tag))] // truncation (incl. the empty string)
			if r.Intn(4) == 0 {
				t = []byte{}
			}
		case 3:
			t = append(append([]byte{}, tag...), randBytes(r, 1+r.Intn(3))...) // extension
		case 4:
			t = flipBit(r, tag)
		case 5: // tag for other data
			t, _ = safeBytes(func() ([]byte, error) { return m.MACCreate(append(append([]byte{}, data...), 0)) })
		default: // tag under another key
			if m2, e2 := macerFor(alg, flipBit(r, k)); e2 == nil {
				t, _ = safeBytes(func() ([]byte, error) { return m2.MACCreate(data) })
			}
		}
		out = append(out, fmt.Sprintf("prim.macverify %d %s %s %s", alg, hx(k), hx(data), hx(t)))
		if i%5 == 1 { // the right tag followed by zero octets / by 0xff octets (padding-like extensions), 1..24 of them
			pad := make([]byte, 1+(i/5)%24)
			if (i/5)%2 == 1 {
				for j := range pad {
					pad[j] = 0xff
				}
			}
			out = append(out, fmt.Sprintf("prim.macverify %d %s %s %s", alg, hx(k), hx(data), hx(append(append([]byte{}, tag...), pad...))))
		}
		if i%25 == 13 { // a message whose tag ends in a zero octet, presented without it
			for try := 0; try < 2000; try++ {
				d2 := randBytes(r, 1+r.Intn(40))
				t2, e2 := safeBytes(func() ([]byte, error) { return m.MACCreate(d2) })
				if e2 != nil {
					break
				}
				if t2[len(t2)-1] == 0 {
					cut := len(t2) - 1
					for cut > 0 && t2[cut-1] == 0 {
						cut--
					}
					out = append(out, fmt.Sprintf("prim.macverify %d %s %s %s", alg, hx(k), hx(d2), hx(t2[:cut])))
					break
				}
			}
		}
		if i%5 == 2 && len(k) == keySizeOf(alg) { // the key's alg member changes after construction (a sibling of the family, or anything)
			fam := hmacAlgs
			if isIn(alg, aesmacAlgs) {
				fam = aesmacAlgs
			}
			alg2 := []int{pick(r, fam), pick(r, fam), pick(r, fam), 0, 1, -7, 1 << 20}[r.Intn(7)]
			if i%15 == 2 { // every ordered pair of the family in turn
				alg, alg2 = fam[(i/15)%4], fam[(i/15/4)%4]
				k = randBytes(r, keySizeOf(alg))
			}
			out = append(out, fmt.Sprintf("prim.macalg %d %s %d %s", alg, hx(k), alg2, hx(randBytes(r, 1+r.Intn(70)))))
		}
		if i%4 == 0 { // one MACer, two messages
			out = append(out, fmt.Sprintf("prim.mac2 %d %s %s %s", alg, hx(k), hx(data), hx(randBytes(r, msgLen(r, false)))))
			if isIn(alg, hmacAlgs) && len(k) == keySizeOf(alg) {
				out = append(out, fmt.Sprintf("prim.macrekey %d %s %s %s", alg, hx(k), hx(randBytes(r, len(k))), hx(data)))
			}
		}
	}
	return out
}

func genPrimAead(r *rand.Rand, n int) []string {
	var out []string
	for i := 0; i < n; i++ {
		var alg int
		switch r.Intn(5) {
		case 0:
			alg = pick(r, gcmAlgs)
		case 1:
			alg = iana.AlgorithmChaCha20Poly1305
		default:
			alg = pick(r, ccmAlgs)
		}
		ks := keySizeOf(alg)
		if r.Intn(8) == 0 { // wrong sizes; the other AES sizes are the interesting ones (the block cipher accepts them)
			ks = []int{0, 15, 16, 17, 24, 31, 32, 33, 64, 16, 24, 32, 16, 24, 32}[r.Intn(15)]
		}
		ns := nonceSizeOf(alg)
		if r.Intn(12) == 0 {
			ns += r.Intn(3) - 1
			if r.Intn(4) == 0 {
				ns = r.Intn(20)
			}
		}
		if i%10 == 6 { // the nonce lengths of the sibling constructions: 64-bit ChaCha nonces, XChaCha, the other CCM family, GCM — in turn
			ns = []int{24, 8, 7, 13, 12, 16, 0}[(i/10/13)%7]
		}
		if i%10 == 6 { // … for every algorithm in turn
			all := append(append(append([]int{}, gcmAlgs...), ccmAlgs...), iana.AlgorithmChaCha20Poly1305)
			alg = all[(len(all)-1+i/10)%len(all)] // (ChaCha20/Poly1305 first)
			ks = keySizeOf(alg)
		}
		big := i%25 == 0
		k, nonce := randBytes(r, ks), randBytes(r, ns)
		if r.Intn(6) == 0 && ns >= 8 { // constant || counter layout: leading zero octets
			for j := 0; j < 4; j++ {
				nonce[j] = 0
			}
		}
		pt, aad := randBytes(r, msgLen(r, big)), randBytes(r, msgLen(r, big && r.Intn(2) == 0))
		if i%17 == 5 || i%17 == 12 { // patterned keys (5) / nonces (12) of the right size, every algorithm in turn
			all := append(append(append([]int{}, gcmAlgs...), ccmAlgs...), iana.AlgorithmChaCha20Poly1305)
			alg = all[(i/17)%len(all)]
			k, nonce = randBytes(r, keySizeOf(alg)), randBytes(r, nonceSizeOf(alg))
			if i%17 == 5 {
				k = patterned(len(k), i/17/len(all))
			} else {
				nonce = patterned(len(nonce), i/17/len(all))
			}
		}
		if i%40 == 3 { // AES-CCM-16-*: plaintext / ciphertext lengths around the 2^16 limit
			alg = []int{10, 11, 30, 31}[(i/40)%4] // in turn, not drawn
			k, nonce = randBytes(r, keySizeOf(alg)), randBytes(r, 13)
			pt = randBytes(r, []int{65536, 65535, 65537, 65519, 100000, 65520, 65527, 65528, 65534}[(i/40)%9])
			aad = randBytes(r, r.Intn(20))
		}
		if i%40 == 13 { // AES-CCM-64-*: plaintexts of 2^16 octets and more are fine there (the length field has 8 octets)
			alg = []int{12, 13, 32, 33}[(i/40)%4]
			k, nonce = randBytes(r, keySizeOf(alg)), randBytes(r, 7)
			pt = randBytes(r, []int{65536, 70000, 65535, 131072}[(i/160)%4])
			aad = randBytes(r, r.Intn(20))
		}
		if i%40 == 23 { // AAD lengths around 0xff00, where the RFC 3610 length prefix changes form
			aad = randBytes(r, []int{65280, 65279, 65281, 66000, 65291, 65293, 69995, 65535, 65536}[(i/40)%9]) // incl. lengths 11..14 mod 16 in the long form
			pt = randBytes(r, r.Intn(40))
		}
		out = append(out, fmt.Sprintf("prim.aead.enc %d %s %s %s %s", alg, hx(k), hx(nonce), hx(pt), hx(aad)))
		if i%6 == 1 && len(pt) < 4096 { // the key's alg member changes after construction
			alg2 := []int{pick(r, ccmAlgs), pick(r, ccmAlgs), pick(r, gcmAlgs), 24, 0, 5, -7, 1 << 20}[r.Intn(8)]
			nn := nonce
			switch r.Intn(4) {
			case 0:
				nn = randBytes(r, nonceSizeOf(alg2))
			case 1:
				nn = nil
			case 2:
				nn = randBytes(r, []int{7, 12, 13}[r.Intn(3)])
			}
			out = append(out, fmt.Sprintf("prim.aeadalg %d %s %d %s %s %s", alg, hx(k), alg2, hx(nn), hx(pt), hx(aad)))
		}
		e, err := encryptorFor(alg, k)
		if err != nil {
			continue
		}
		ct, err := safeBytes(func() ([]byte, error) { return e.Encrypt(nonce, pt, aad) })
		if err != nil {
			continue
		}
		k2, n2, c2, a2 := k, nonce, ct, aad
		switch r.Intn(8) {
		case 0, 1:
		case 2:
			c2 = flipBit(r, ct)
		case 3:
			n2 = flipBit(r, nonce)
		case 4:
			a2 = flipBit(r, aad)
		case 5:
			k2 = flipBit(r, k)
		case 6:
			c2 = ct[:r.Intn(len(ct)+1)]
		default:
			c2 = append(append([]byte{}, ct...), byte(r.Intn(256)))
		}
		out = append(out, fmt.Sprintf("prim.aead.dec %d %s %s %s %s", alg, hx(k2), hx(n2), hx(c2), hx(a2)))
		if i%4 == 0 && len(pt) < 5000 && len(aad) < 5000 { // one Encryptor, two encryptions: with / without additional data in either order
			p2, ad2 := randBytes(r, msgLen(r, false)), randBytes(r, []int{0, 0, 1, 14, 15, 40}[r.Intn(6)])
			ad1 := aad
			if r.Intn(2) == 0 {
				ad1 = randBytes(r, 1+r.Intn(30))
			}
			out = append(out, fmt.Sprintf("prim.aead2 %d %s %s %s %s %s %s %s", alg, hx(k), hx(nonce), hx(pt), hx(ad1), hx(flipBit(r, nonce)), hx(p2), hx(ad2)))
		}
	}
	return out
}

func genPrimKdf(r *rand.Rand, n int) []string {
	var out []string
	for i := 0; i < n; i++ {
		secret := randBytes(r, []int{0, 1, 16, 32, 33, 64, 100}[r.Intn(7)])
		salt := randBytes(r, []int{0, 0, 1, 32, 64, 65, 200}[r.Intn(7)])
		info := randBytes(r, r.Intn(201))
		if i%17 == 11 { // info that is itself a COSE_KDF_Context naming some key length: opaque to HKDF, any output length goes
			kdl := []int{128, 256, 512, 0}[(i/17)%4]
			ctx := []byte{0x84, 0x01, 0x83, 0xf6, 0xf6, 0xf6, 0x83, 0xf6, 0xf6, 0xf6, 0x82}
			ctx = append(ctx, (&cnode{mt: 0, n: uint64(kdl)}).emit(nil, nil, nil)...)
			ctx = append(ctx, 0x44, 0xa1, 0x01, 0x38, 0x18)
			if (i/17)%3 == 2 { // the five-member form
				ctx[0] = 0x85
				ctx = append(ctx, 0x41, 0x07)
			}
			info = ctx
		}
		if i%17 == 7 { // patterned secrets and salts
			secret, salt = patterned([]int{16, 32, 64}[(i/17)%3], i/17/3), patterned([]int{0, 32, 64}[(i/17)%3], i/17/3+1)
		}
		switch r.Intn(4) {
		case 0:
			l := []int{0, 1, 31, 32, 33, 64, 255 * 32, 255*32 + 1, r.Intn(255 * 32)}[r.Intn(9)]
			if i%13 == 5 { // far beyond the limit, incl. lengths that are small again modulo 2^16
				l = []int{65536, 65552, 65536 + 8160, 131072 + 32, 1 << 20, 196608 + 16}[(i/13)%6]
			}
			out = append(out, fmt.Sprintf("prim.hkdf256 %s %s %s %d", hx(secret), hx(salt), hx(info), l))
		case 1:
			l := []int{0, 1, 63, 64, 65, 128, 255 * 64, 255*64 + 1, r.Intn(255 * 64)}[r.Intn(9)]
			if i%13 == 5 {
				l = []int{65536, 65600, 65536 + 16320, 131072 + 64, 1 << 20, 196608 + 64}[(i/13)%6]
			}
			out = append(out, fmt.Sprintf("prim.hkdf512 %s %s %s %d", hx(secret), hx(salt), hx(info), l))
		case 2:
			ks := []int{16, 32, 16, 32, 24, 15, 0}[r.Intn(7)]
			l := []int{0, 1, 15, 16, 17, 32, 48, 4080, 4081, r.Intn(4081)}[r.Intn(10)]
			if i%13 == 5 {
				l = []int{65536, 65568, 65536 + 4080, 131072 + 16, 1 << 20, 196608 + 32}[(i/13)%6]
			}
			kk := randBytes(r, ks)
			if i%17 == 7 {
				kk = patterned([]int{16, 32}[(i/17)%2], i/17/2)
			}
			out = append(out, fmt.Sprintf("prim.hkdfaes %s %s %d", hx(kk), hx(info), l))
		default:
			ks := []int{16, 32}[r.Intn(2)]
			var sizes []string
			total := 0
			for j := r.Intn(8) + 1; j > 0; j-- {
				s := []int{0, 1, 15, 16, 17, 31, 32, 33, r.Intn(100), r.Intn(1500)}[r.Intn(10)]
				total += s
				sizes = append(sizes, strconv.Itoa(s))
			}
			if r.Intn(10) == 0 {
				sizes = append(sizes, strconv.Itoa(4081-total+r.Intn(3)-1))
			}
			if r.Intn(4) == 0 { // walk to 4065..4080 bytes consumed (all 255 blocks generated), then ask for more
				sizes = nil
				total = 0
				stop := 4065 + r.Intn(16)
				for total < stop {
					s := []int{1, 7, 16, 17, 255, 1000, 4079, 4080, 1 + r.Intn(2000)}[r.Intn(9)]
					if total+s > stop {
						s = stop - total
					}
					total += s
					sizes = append(sizes, strconv.Itoa(s))
				}
				sizes = append(sizes, strconv.Itoa([]int{0, 1, 4080 - stop, 4081 - stop, 16, 1 + r.Intn(40)}[r.Intn(6)]))
				if r.Intn(2) == 0 {
					sizes = append(sizes, strconv.Itoa(r.Intn(3)))
				}
			}
			if i%9 == 4 { // a refused (oversized) read in the middle of a block, then reads that fit
				sizes = [][]string{{"5", "5000", "20"}, {"5", "4076", "4075"}, {"17", "4080", "15", "4064", "1"}, {"4079", "2", "1", "1"}, {"1", "65536", "16"}}[(i/9)%5]
			}
			out = append(out, fmt.Sprintf("prim.hkdfaes.read %s %s %s", hx(randBytes(r, ks)), hx(info), strings.Join(sizes, ",")))
		}
	}
	return out
}

// patterned: the values a "hardening" might single out — all zero, all ones, a counter starting at zero, a single high
// or low bit — as keys, nonces, secrets and salts at fixed slots (for every algorithm in turn)
func patterned(n, which int) []byte {
	b := make([]byte, n)
	switch which % 5 {
	case 0: // all zero
	case 1:
		for i := range b {
			b[i] = 0xff
		}
	case 2: // 00 .. 00 01
		if n > 0 {
			b[n-1] = 1
		}
	case 3: // 80 00 .. 00
		if n > 0 {
			b[0] = 0x80
		}
	default: // 00 01 02 ..
		for i := range b {
			b[i] = byte(i)
		}
	}
	return b
}

func genPrim(r *rand.Rand, n int) []string {
	return append(append(genPrimMac(r, n), genPrimAead(r, n)...), genPrimKdf(r, n)...)
}

// slack: byte-slice arguments laid out back to back in one allocation, each with spare capacity behind it (the shape of a
// receive buffer, or of a slice cut from a larger one).  A callee that appends to or writes through an argument shows up
// as a change of the guard octets or of a neighbour.
type slack struct {
	buf   []byte
	want  []byte
	views [][]byte
}

func newSlack(args ...[]byte) *slack {
	s := &slack{}
	for _, a := range args {
		s.buf = append(s.buf, a...)
		s.buf = append(s.buf, 0xa5, 0x5a, 0xa5, 0x5a, 0xa5, 0x5a, 0xa5, 0x5a, 0xa5, 0x5a, 0xa5, 0x5a, 0xa5, 0x5a, 0xa5, 0x5a, 0xa5, 0x5a, 0xa5, 0x5a)
	}
	s.want = append([]byte{}, s.buf...)
	off := 0
	for _, a := range args {
		var v []byte
		if a != nil {
			v = s.buf[off : off+len(a)] // capacity reaches to the end of the allocation
		}
		s.views = append(s.views, v)
		off += len(a) + 20
	}
	return s
}

func (s *slack) intact() bool { return string(s.buf) == string(s.want) }
