package main

import (
	"fmt"
	"math/rand"
	"regexp"
	"strings"

	"github.com/ldclabs/cose/iana"
)

var kindsAll = []string{"sign1", "sign", "mac0", "mac", "encrypt0", "encrypt"}
var macAlgs = append(append([]int{}, hmacAlgs...), aesmacAlgs...)
var aeadAlgs = append(append(append([]int{}, gcmAlgs...), ccmAlgs...), iana.AlgorithmChaCha20Poly1305)

type msgKey struct {
	alg       int
	priv, pub string // key tokens for the producing and for the consuming side
	kid       []byte
}

// genMsgKey: a valid key for alg, with optional kid / alg / key_ops / Base IV members
func genMsgKey(r *rand.Rand, alg int, withBaseIV bool) msgKey {
	mk := msgKey{alg: alg}
	var extra []string
	if r.Intn(3) != 0 {
		mk.kid = randBytes(r, 1+r.Intn(6))
		// the kid as []byte, key.ByteStr or another named byte-slice type (a public key used as its own id, an application type)
		extra = append(extra, "int:2", []string{"b:", "b:", "b:", "bs:", "bx:"}[r.Intn(5)]+hx(mk.kid))
	}
	switch {
	case isIn(alg, sigAlgs):
		if r.Intn(3) != 0 || alg != iana.AlgorithmES256 && alg != iana.AlgorithmEdDSA {
			extra = append(extra, "int:3", fmt.Sprintf("%s:%d", []string{"int", "alg", "i64"}[r.Intn(3)], alg))
		}
		if alg == iana.AlgorithmEdDSA {
			k := genEdKey(r)
			mk.priv = k.tokens(r, r.Intn(2), extra)
			mk.pub = k.tokens(r, 2, extra)
			if r.Intn(3) == 0 {
				mk.pub = mk.priv
			}
		} else {
			k := genEcScalar(r, alg)
			mk.priv = k.tokens(r, r.Intn(2), extra)
			mk.pub = k.tokens(r, 2+r.Intn(2), extra)
			if r.Intn(3) == 0 {
				mk.pub = mk.priv
			}
		}
	default:
		symKeySeq++
		// the key octets held as []byte, key.ByteStr or another named byte-slice type, in turn
		parts := []string{"{", "int:1", "int:4", "int:-1", []string{"b:", "b:", "bs:", "bx:"}[symKeySeq%4] + hx(randBytes(r, keySizeOf(alg))), "int:3", fmt.Sprintf("%s:%d", []string{"int", "alg", "i64", "u64"}[r.Intn(3)], alg)}
		if alg < 0 {
			parts[len(parts)-1] = fmt.Sprintf("int:%d", alg)
		}
		parts = append(parts, extra...)
		if withBaseIV {
			parts = append(parts, "int:5", []string{"b:", "b:", "bs:", "bx:"}[r.Intn(4)]+hx(randBytes(r, nonceSizeOf(alg))))
		}
		mk.priv = strings.Join(append(parts, "}"), " ")
		mk.pub = mk.priv
	}
	return mk
}

func algsForKind(kind string) []int {
	switch kind {
	case "sign1", "sign":
		return sigAlgs
	case "mac0", "mac":
		return macAlgs
	}
	return aeadAlgs
}

var hdrLabels = []string{"int:3", "int:2", "int:7", "int:10", "int:33", "int:-1", "int:256", "int:-65537", "t:78", "t:637573746f6d", "int:16", "i64:15", "u64:11",
	// text labels that print like integer labels of the same map: distinct CBOR keys
	"t:37", "t:3130", "t:2d31", "t:33", "t:3333"}

// genHdrTok: nil, or a header map; reserved labels (1 alg, 4 kid, 5 IV, 6 Partial IV) only when asked for
func genHdrTok(r *rand.Rand, maxEntries int) string {
	if r.Intn(3) == 0 {
		return "nil"
	}
	if r.Intn(8) == 0 {
		return "{ }" // present but empty: the bucket goes on the wire as h''
	}
	parts := []string{"{"}
	seen := map[string]bool{}
	for i := r.Intn(maxEntries + 1); i > 0; i-- {
		l := hdrLabels[r.Intn(len(hdrLabels))]
		norm := l[strings.IndexByte(l, ':')+1:]
		if l[0] == 't' {
			norm = "t" + norm
		}
		if seen[norm] {
			continue
		}
		seen[norm] = true
		var v string
		hdrSeq++
		if hdrSeq%5 == 3 { // nested maps whose own keys are no header labels (wide integers, booleans, mixed), also inside arrays — in turn
			v = []string{
				"{ i64:1700000000123 t:63726561746564 }",
				"[ { int:1 t:706c61696e } { T t:6f6e F t:6f6666 } ]",
				"{ i64:-4294967297 int:1 u64:18446744073709551615 int:2 }",
				"{ t:61 { T { i64:4294967296 b:01 } } }",
				"[ int:1 [ { F nil } ] ]",
				"{ int:-1 { u64:4294967296 [ T F ] } int:1 int:2 }",
			}[(hdrSeq/5)%6]
			parts = append(parts, l, v)
			continue
		}
		switch r.Intn(8) {
		case 7: // a value nested 1..14 levels deep (with the message's own levels still far from the decoder's limit of 32)
			d := 1 + r.Intn(14)
			v = strings.Repeat("[ ", d) + genIntTok(r) + strings.Repeat(" ]", d)
			if r.Intn(2) == 0 {
				v = strings.Repeat("{ int:1 ", d) + genIntTok(r) + strings.Repeat(" }", d)
			}
		case 0, 1:
			v = genIntTok(r)
		case 2:
			v = "b:" + hx(randBytes(r, r.Intn(30)))
		case 3:
			v = genTextTok(r)
		case 4:
			v = []string{"T", "F"}[r.Intn(2)]
		case 5:
			v = "[ " + genIntTok(r) + " " + genTextTok(r) + " ]"
		default:
			v = "{ int:1 " + genIntTok(r) + " t:61 b:01 }"
		}
		parts = append(parts, l, v)
	}
	return strings.Join(append(parts, "}"), " ")
}

func payloadTok(r *rand.Rand, mode string, big bool) string {
	switch mode {
	case "named":
		if r.Intn(8) == 0 {
			return "~"
		}
		// among them octet strings that are themselves well-formed CBOR (a byte string head, a small map)
		return [](func() string){
			func() string { return hx(randBytes(r, []int{0, 1, 5, 23, 24, 100, 256}[r.Intn(7)])) },
			func() string { return hx(append([]byte{0x42}, randBytes(r, 2)...)) },
			func() string { return "a10126" },
		}[r.Intn(3)]()
	case "typed", "gomap":
		if r.Intn(10) == 0 {
			return "nil"
		}
		return genMapTok(r, 2, r.Intn(6))
	case "rawmsg":
		if r.Intn(8) == 0 {
			return "~"
		}
		// pre-encoded CBOR
		t := genTree(r, 2, false)
		t.sortKids(r)
		if r.Intn(3) == 0 { // pre-encoded CBOR is opaque to the library: indefinite lengths and long heads are the caller's business
			return hx(t.emit(nil, r, &emitOpts{indef: 0.4, nonShortest: 0.3}))
		}
		return hx(t.emit(nil, r, nil))
	}
	switch r.Intn(10) {
	case 0:
		return "~"
	case 1:
		return "-"
	default:
		// every CBOR length class, and the sizes at which chunked / buffered primitives change gear (512, 4096)
		// (taken in turn, not drawn: every class is reached whatever the seed)
		classes := []int{1, 5, 23, 24, 25, 100, 255, 256, 257, 511, 512, 513, 1000, 4095, 4096, 4097}
		n := classes[payloadSeq%len(classes)]
		payloadSeq++
		if big {
			bigClasses := []int{65535, 65536, 70000, 32767, 32768, 40000, 65534, 65537}
			n = bigClasses[bigSeq%len(bigClasses)]
			bigSeq++
		}
		return hx(randBytes(r, n))
	}
}

var payloadSeq, bigSeq, extSeq, hdrSeq, signSeq, recipSeq, symKeySeq int

func extTok(r *rand.Rand) string {
	extSeq++
	if extSeq%16 == 9 { // external data at the boundaries of the CBOR length classes, in turn
		return hx(randBytes(r, []int{23, 24, 255, 256, 65535, 65536}[(extSeq/16)%6]))
	}
	switch r.Intn(4) {
	case 0:
		return "~"
	case 1:
		return "-"
	default:
		return hx(randBytes(r, 1+r.Intn(40)))
	}
}

type producedMsg struct {
	kind, mode, ext, recips string
	keys                    []msgKey
	data                    []byte
	line                    string
	ok                      bool
}

// buildProduce makes a produce op, runs it on the library to learn the produced bytes.
func buildProduce(r *rand.Rand, kind, mode string, payload, prot, unprot, ext string, keys []msgKey) *producedMsg {
	recips := "r0"
	if kind == "mac" || kind == "encrypt" {
		recips = []string{"r1", "r2", "r1s", "r3s", "r1n", "r2n"}[r.Intn(6)]
		recipSeq++
		if recipSeq%3 == 1 && len(keys) > 0 && len(keys[0].kid) > 0 { // a recipient addressed by the content key's own kid
			recips = []string{"r1", "r2", "r3s"}[(recipSeq/3)%3] + "k:" + hx(keys[0].kid)
		}
	}
	if kind == "sign" {
		signSeq++
		if signSeq%4 == 2 { // signers that report a key without algorithm (an application's own key.Signer): their protected bucket is empty
			recips = "noalg"
		}
	}
	var ks []string
	for _, k := range keys {
		ks = append(ks, k.priv)
	}
	line := fmt.Sprintf("msg.produce %s %s %s %s | %s | %s | %s | %s", kind, mode, ext, recips, payload, prot, unprot, strings.Join(ks, " | "))
	pm := &producedMsg{kind: kind, mode: mode, ext: ext, recips: recips, keys: keys, line: line}
	f := splitAll(strings.Fields(line)[1:])
	args := &msgArgs{kind: kind, mode: mode, ext: unhxOpt(ext), recips: recips, fields: f[1:]}
	ans := func() (s string) {
		defer func() {
			if rec := recover(); rec != nil {
				s = "panic"
			}
		}()
		return dispatchMode(args, true)
	}()
	pm.ok = strings.HasPrefix(ans, "ok")
	pm.data = args.data
	return pm
}

func (p *producedMsg) consumeLine(data []byte, ext string, keys []string) string {
	return fmt.Sprintf("msg.consume %s %s %s %s | %s", p.kind, p.mode, ext, hx(data), strings.Join(keys, " | "))
}

func (p *producedMsg) pubKeys() []string {
	var ks []string
	for _, k := range p.keys {
		ks = append(ks, k.pub)
	}
	return ks
}

func genOne(r *rand.Rand, kind string, big bool) *producedMsg { return genOneX(r, kind, big, 0) }

// genOneX: twist 1 — the caller supplies an unprotected bucket naming a kid of its own (not the key's);
// twist 2 — the consuming side holds the counterpart key under another kid (or under one where the producer had none)
func genOneX(r *rand.Rand, kind string, big bool, twist int) *producedMsg {
	mode := []string{"raw", "raw", "rawmsg", "typed", "raw", "rawmsg", "typed", "gomap", "named"}[r.Intn(9)]
	algs := algsForKind(kind)
	nkeys := 1
	if kind == "sign" {
		nkeys = 1 + r.Intn(3)
	}
	var keys []msgKey
	usedKid := map[string]bool{}
	if twist == 3 && kind == "sign" { // three signers, the last two of one algorithm
		nkeys = 3
	}
	twinAlg := algs[r.Intn(len(algs))]
	for i := 0; i < nkeys; i++ {
		pickAlg := func() int {
			if twist == 3 && i > 0 {
				return twinAlg
			}
			return algs[r.Intn(len(algs))]
		}
		k := genMsgKey(r, pickAlg(), false)
		if kind == "sign" && nkeys > 1 {
			for len(k.kid) == 0 || usedKid[string(k.kid)] {
				k = genMsgKey(r, pickAlg(), false)
			}
			usedKid[string(k.kid)] = true
		}
		keys = append(keys, k)
	}
	prot, unprot := genHdrTok(r, 3), genHdrTok(r, 3)
	switch twist {
	case 1:
		unprot = "{ int:4 b:" + hx(randBytes(r, 1+r.Intn(8))) + " }"
	case 2:
		if nkeys == 1 {
			k := &keys[0]
			other := "int:2 b:" + hx(append(randBytes(r, 1+r.Intn(5)), 0x5a))
			if len(k.kid) > 0 {
				re := regexp.MustCompile(`int:2 (b|bs|bx):[0-9a-f]+`)
				k.pub = re.ReplaceAllString(k.pub, other)
			} else {
				k.pub = strings.Replace(k.pub, "{ ", "{ "+other+" ", 1)
			}
		}
	}
	payload := payloadTok(r, mode, big)
	if big && (kind == "encrypt0" || kind == "encrypt") {
		// AES-CCM-16-*: plaintexts at the 2^16 limit, where ciphertext = plaintext + tag crosses it
		alg := []int{10, 11, 30, 31}[r.Intn(4)]
		keys = []msgKey{genMsgKey(r, alg, false)}
		mode = "raw"
		payload = hx(randBytes(r, []int{65519, 65520, 65527, 65528, 65534, 65535, 65535, 65536}[r.Intn(8)]))
	}
	if forceRawPayload > 0 { // fixed slot of the caller: a byte-string payload of exactly this length
		mode, payload = "raw", hx(randBytes(r, forceRawPayload))
		forceRawPayload = 0
	}
	return buildProduce(r, kind, mode, payload, prot, unprot, extTok(r), keys)
}

var forceRawPayload int

func genMsg(r *rand.Rand, n int, flavour string) []string {
	var out []string
	for i := 0; i < n; i++ {
		kind := kindsAll[r.Intn(len(kindsAll))]
		switch flavour {
		case "tamper-auth":
			kind = kindsAll[r.Intn(4)]
		case "tamper-enc", "nonce":
			kind = kindsAll[4+r.Intn(2)]
		}
		p := genOne(r, kind, i%30 == 0 || (flavour == "roundtrip" && i%10 == 0))
		if flavour == "roundtrip" && (i%7 == 3 || i%7 == 5) { // fixed slots, every kind in turn: a kid of the caller's own in the unprotected bucket / the counterpart key held under another kid
			kind = kindsAll[(i/7)%len(kindsAll)]
			p = genOneX(r, kind, false, 1+(i%7-3)/2)
		}
		if (flavour == "tamper-auth" || flavour == "roundtrip") && i%30 == 2 && i < 720 {
			// fixed slots: each authenticated kind in turn with a byte-string payload in the 4-octet length class
			// (where a decoder might hand out a view of its input instead of a copy); the first 24 slots only — every kind
			// with every size twice — so that long runs do not fill up with 64 KiB messages and their tampered copies
			forceRawPayload = []int{65536, 70000, 66000}[(i/120)%3]
			p = genOne(r, kindsAll[(i/30)%4], false)
		}
		if flavour == "roundtrip" && i%40 == 6 {
			// fixed slots: messages of several hundred KiB (beyond any "reasonable" input limit a decoder might impose),
			// each one-layer kind and size in turn
			j := i / 40
			kind := []string{"mac0", "sign1", "encrypt0"}[j%3]
			alg := map[string][]int{"mac0": macAlgs, "sign1": {iana.AlgorithmEdDSA, iana.AlgorithmES256}, "encrypt0": {iana.AlgorithmA128GCM, iana.AlgorithmChaCha20Poly1305, iana.AlgorithmA256GCM}}[kind]
			k := genMsgKey(r, alg[(j/3)%len(alg)], false)
			out = append(out, fmt.Sprintf("msg.huge %s %d %d | %s", kind, []int{300000, 262145, 524289, 1048577}[(j/3)%4], j, k.priv))
		}
		if flavour == "tamper-auth" && i%50 == 11 {
			// a COSE_Sign nobody can verify (unknown kid in the first entry) with thousands of tiny signature entries and a
			// sizeable payload: refusing it costs in proportion to its size, not payload x entries
			nSig, pl := []int{4000, 1000, 6000}[(i/50)%3], []int{16384, 65536, 8192}[(i/50)%3]
			entry := []byte{0x83, 0x40, 0xa1, 0x04, 0x41, 0x01, 0x41, 0x00}
			msg := append([]byte{0xd8, 0x62, 0x84, 0x40, 0xa0}, bstrItem(randBytes(r, pl))...)
			msg = append(msg, 0x99, byte(nSig>>8), byte(nSig))
			for j := 0; j < nSig; j++ {
				e := append([]byte{}, entry...)
				e[5] = byte(j) // kids differ
				msg = append(msg, e...)
			}
			k := genMsgKey(r, iana.AlgorithmEdDSA, false)
			out = append(out, fmt.Sprintf("msg.consume sign raw - %s | %s", hx(msg), k.pub))
		}
		if flavour == "tamper-auth" && i%9 == 4 { // COSE_Sign with three signers, the last two of one algorithm
			p = genOneX(r, "sign", false, 3)
		}
		if flavour == "tamper-enc" && i%20 == 7 {
			// external data beyond 0xff00 octets (the long form of the AEAD's AAD length) under AES-CCM, small message
			k := genMsgKey(r, ccmAlgs[r.Intn(len(ccmAlgs))], false)
			mode := "raw"
			p = buildProduce(r, kind, mode, hx(randBytes(r, 1+r.Intn(20))), "nil", "nil", hx(randBytes(r, []int{65280, 65281, 66000}[r.Intn(3)])), []msgKey{k})
		}
		out = append(out, p.line)
		if i%3 == 1 && strings.HasPrefix(p.line, "msg.produce ") { // the same on a message object that was produced once before
			out = append(out, "msg.produce2 "+strings.TrimPrefix(p.line, "msg.produce "))
		}
		if !p.ok || p.data == nil {
			continue
		}
		untagged := removeTag(p.data)
		cwt := append([]byte{0xd8, 0x3d}, p.data...)
		switch flavour {
		case "roundtrip":
			out = append(out, p.consumeLine(p.data, p.ext, p.pubKeys()), p.consumeLine(untagged, p.ext, p.pubKeys()), p.consumeLine(cwt, p.ext, p.pubKeys()))
			out = append(out, "msg.untag "+hx(p.data), "msg.untag "+hx(cwt))
			if i%4 == 1 { // the same message object and key objects used twice: the second use answers like the first
				out = append(out, history(r, p)...)
			}
		case "reencode":
			out = append(out, "msg.reencode "+p.kind+" "+hx(p.data), "msg.reencode "+p.kind+" "+hx(untagged), "msg.untag "+hx(cwt))
			out = append(out, p.consumeLine(p.data, p.ext, p.pubKeys()))
		default:
			out = append(out, p.consumeLine(p.data, p.ext, p.pubKeys()))
			for j := 0; j < 4; j++ {
				out = append(out, tamper(r, p))
			}
			if d, ok := reheadProtected(p.data); ok {
				out = append(out, p.consumeLine(d, p.ext, p.pubKeys()))
			}
			if k2, d, ok := reframe(p.kind, p.data); ok {
				out = append(out, fmt.Sprintf("msg.consume %s %s %s %s | %s", k2, p.mode, p.ext, hx(d), strings.Join(p.pubKeys(), " | ")))
			}
			if d, ok := reheadPayload(p.data); ok && p.mode != "raw" && p.mode != "rawmsg" {
				out = append(out, p.consumeLine(d, p.ext, p.pubKeys()))
			}
			if p.kind == "sign" {
				if d, ok := extendLaterSignerBucket(p.data); ok {
					out = append(out, p.consumeLine(d, p.ext, p.pubKeys()))
				}
			}
			if i%2 == 0 {
				out = append(out, history(r, p)...)
			}
		}
	}
	return out
}

func removeTag(b []byte) []byte {
	if len(b) > 0 && b[0] >= 0xc0 && b[0] <= 0xd7 {
		return b[1:]
	}
	if len(b) > 1 && b[0] == 0xd8 {
		return b[2:]
	}
	return b
}

// tamper: one consume op on an altered message / key / external data
func tamper(r *rand.Rand, p *producedMsg) string {
	kind, data, ext, keys := tamperParts(r, p)
	return fmt.Sprintf("msg.consume %s %s %s %s | %s", kind, p.mode, ext, hx(data), strings.Join(keys, " | "))
}

func tamperParts(r *rand.Rand, p *producedMsg) (kind string, data []byte, ext string, keys []string) {
	keys = p.pubKeys()
	data = append([]byte{}, p.data...)
	ext = p.ext
	kind = p.kind
	switch r.Intn(17) {
	case 15, 16: // array shape: well-formed members appended or the last one dropped, head adjusted (the wire structs have a fixed arity)
		start, spans := topMembers(data)
		if start > 0 && len(spans) >= 3 && len(spans) < 20 {
			if r.Intn(4) == 0 { // one member fewer
				data = append(append([]byte{}, data[:spans[len(spans)-1][0]]...), data[spans[len(spans)-1][1]:]...)
				data[start-1]--
			} else {
				extra := [][]byte{{0xf6}, {0x80}, {0x40}, {0xa0}, {0x00}, {0x81, 0x83, 0x40, 0xa0, 0x40}}
				n := 1 + r.Intn(2)
				end := spans[len(spans)-1][1]
				tail := append([]byte{}, data[end:]...)
				data = data[:end]
				for j := 0; j < n; j++ {
					data = append(data, extra[r.Intn(len(extra))]...)
				}
				data = append(data, tail...)
				data[start-1] += byte(n)
			}
		}
	case 0, 1: // bit flip anywhere
		i := r.Intn(len(data))
		data[i] ^= 1 << uint(r.Intn(8))
	case 2: // truncation
		data = data[:r.Intn(len(data))]
	case 3: // trailing byte
		data = append(data, byte(r.Intn(256)))
	case 4: // other external data
		ext = hx(randBytes(r, 1+r.Intn(8)))
		if r.Intn(3) == 0 {
			ext = "~"
		}
	case 5: // other key of the same algorithm
		k2 := genMsgKey(r, p.keys[0].alg, false)
		keys = append([]string{k2.pub}, keys[1:]...)
	case 6: // splice: a field of another independently produced message of the same kind
		q := genOne(r, p.kind, false)
		if q.ok && q.data != nil {
			data = spliceField(r, data, q.data)
		}
	case 7: // change of message kind: swap the tag / array prefix for another kind's
		kind = kindsAll[r.Intn(len(kindsAll))]
		data = retag(data, kind)
	case 8, 9: // the authenticator (signature / tag / ciphertext) shortened, emptied or lengthened, well-formed CBOR kept
		data = resizeAuth(r, data, p.kind)
	case 13: // a COSE_Sign1 re-framed as COSE_Sign with its signature under a signer entry whose protected bucket is empty
		// (h'' / null / h'a0'): the contexts "Signature1" and "Signature" must keep the two kinds apart
		_, spans := topMembers(data)
		if p.kind == "sign1" && len(spans) == 4 {
			sigItem := data[spans[3][0]:spans[3][1]]
			su := []byte{0xa0}
			if len(p.keys[0].kid) > 0 {
				su = append([]byte{0xa1, 0x04}, bstrItem(p.keys[0].kid)...)
			}
			sp := [][]byte{{0x40}, {0xf6}, {0x41, 0xa0}}[r.Intn(3)]
			signer := append(append(append([]byte{0x83}, sp...), su...), sigItem...)
			body := append([]byte{0x84}, data[spans[0][0]:spans[2][1]]...)
			body = append(body, 0x81)
			body = append(body, signer...)
			kind = "sign"
			data = append([]byte{0xd8, 0x62}, body...)
		} else {
			data = resizeAuth(r, data, p.kind)
		}
	case 12: // another encoding of an empty protected bucket (h'' <-> h'a0' / h'b800' / null): the authenticated bytes change
		_, spans := topMembers(data)
		if len(spans) > 0 {
			item := data[spans[0][0]:spans[0][1]]
			alt := [][]byte{{0x41, 0xa0}, {0x42, 0xb8, 0x00}, {0xf6}, {0x40}}
			if c, ok := bstrContent(item); ok && (len(c) == 0 || (len(c) == 1 && c[0] == 0xa0)) {
				n := alt[r.Intn(len(alt))]
				if string(n) != string(item) {
					data = replaceSpan(data, spans[0], n)
				}
			} else {
				data = resizeAuth(r, data, p.kind)
			}
		}
	case 11: // a label inside the body protected bucket changed (the value, e.g. the alg, stays): {1: alg} -> {10: alg}
		_, spans := topMembers(data)
		if len(spans) > 0 {
			if c, ok := bstrContent(data[spans[0][0]:spans[0][1]]); ok && len(c) >= 2 && c[0] >= 0xa1 && c[0] <= 0xb7 && c[1] < 0x18 {
				nc := append([]byte{}, c...)
				nc[1] = byte([]int{10, 9, 11, 2, 7}[r.Intn(5)])
				data = replaceSpan(data, spans[0], bstrItem(nc))
			}
		}
	case 10: // COSE_Sign: a signer entry forged, duplicated, dropped or reordered
		if p.kind == "sign" {
			data = tamperSigners(r, data)
		} else {
			data = resizeAuth(r, data, p.kind)
		}
	default: // byte replaced
		data[r.Intn(len(data))] = byte(r.Intn(256))
	}
	return
}

func bstrItem(b []byte) []byte { return (&cnode{mt: 2, b: b}).emit(nil, nil, nil) }

// bstrContent returns the content of the definite-length byte string item, or nil,false
func bstrContent(item []byte) ([]byte, bool) {
	if len(item) == 0 || item[0]>>5 != 2 {
		return nil, false
	}
	ai := item[0] & 0x1f
	hl := 1
	switch {
	case ai < 24:
	case ai == 24:
		hl = 2
	case ai == 25:
		hl = 3
	case ai == 26:
		hl = 5
	case ai == 27:
		hl = 9
	default:
		return nil, false
	}
	if hl > len(item) {
		return nil, false
	}
	return item[hl:], true
}

func resized(r *rand.Rand, c []byte) []byte {
	switch r.Intn(6) {
	case 0:
		return []byte{}
	case 1:
		if len(c) > 0 {
			return c[:r.Intn(len(c))]
		}
	case 2:
		if len(c) > 1 {
			return c[:len(c)-1]
		}
	case 3:
		return append(append([]byte{}, c...), byte(r.Intn(256)))
	case 4:
		return append(append([]byte{}, c...), c...)
	}
	if len(c) > 0 {
		return c[:1]
	}
	return []byte{0}
}

func replaceSpan(data []byte, sp [2]int, item []byte) []byte {
	out := append([]byte{}, data[:sp[0]]...)
	out = append(out, item...)
	return append(out, data[sp[1]:]...)
}

// resizeAuth re-encodes the authenticator member with another length
func resizeAuth(r *rand.Rand, data []byte, kind string) []byte {
	_, spans := topMembers(data)
	idx := map[string]int{"sign1": 3, "mac0": 3, "mac": 3, "encrypt0": 2, "encrypt": 2, "sign": 3}[kind]
	if idx >= len(spans) {
		return data
	}
	if kind == "sign" {
		return tamperSigners(r, data)
	}
	c, ok := bstrContent(data[spans[idx][0]:spans[idx][1]])
	if !ok {
		return data
	}
	return replaceSpan(data, spans[idx], bstrItem(resized(r, c)))
}

// elements of the definite-length array item
func arrayElems(item []byte) ([][]byte, bool) {
	if len(item) == 0 || item[0]>>5 != 4 {
		return nil, false
	}
	ai := item[0] & 0x1f
	i := 1
	n := int(ai)
	switch {
	case ai < 24:
	case ai == 24 && len(item) > 1:
		n, i = int(item[1]), 2
	default:
		return nil, false
	}
	var out [][]byte
	for k := 0; k < n; k++ {
		e := itemEnd(item, i)
		if e < 0 {
			return nil, false
		}
		out = append(out, item[i:e])
		i = e
	}
	return out, true
}

func arrayItem(elems [][]byte) []byte {
	out := appendHead(nil, nil, 4, uint64(len(elems)), nil)
	for _, e := range elems {
		out = append(out, e...)
	}
	return out
}

// tamperSigners edits the COSE_Signature array: forged entry reusing a genuine entry's headers (so the same kid)
// with a zero / resized signature, placed before or after; duplicate; drop; swap
func tamperSigners(r *rand.Rand, data []byte) []byte {
	_, spans := topMembers(data)
	if len(spans) < 4 {
		return data
	}
	elems, ok := arrayElems(data[spans[3][0]:spans[3][1]])
	if !ok || len(elems) == 0 {
		return data
	}
	g := elems[r.Intn(len(elems))]
	parts, ok := arrayElems(g)
	forged := g
	if ok && len(parts) == 3 {
		sig, _ := bstrContent(parts[2])
		var fs []byte
		switch r.Intn(3) {
		case 0:
			fs = make([]byte, len(sig))
		case 1:
			fs = resized(r, sig)
		default:
			fs = flipBit(r, sig)
		}
		prot := parts[0]
		if r.Intn(2) == 0 { // attacker-chosen protected bytes: one more header
			if pc, ok := bstrContent(prot); ok && len(pc) > 0 && pc[0] >= 0xa0 && pc[0] < 0xb7 {
				np := append([]byte{pc[0] + 1}, pc[1:]...)
				np = append(np, 0x18, 0x63, 0x41, 0x78)
				prot = bstrItem(np)
			}
		}
		forged = arrayItem([][]byte{prot, parts[1], bstrItem(fs)})
	}
	var ne [][]byte
	switch r.Intn(9) {
	case 6: // nothing but null entries: a non-empty list without a single signature
		ne = [][]byte{{0xf6}, {0xf6}}[:1+r.Intn(2)]
	case 7: // a null (or undefined) entry next to the genuine ones
		ne = append(append([][]byte{}, elems...), [][]byte{{0xf6}, {0xf7}}[r.Intn(2)])
		if r.Intn(2) == 0 {
			ne = append([][]byte{{0xf6}}, elems...)
		}
	case 8: // the list itself null / an empty array
		return replaceSpan(data, spans[3], [][]byte{{0xf6}, {0x80}}[r.Intn(2)])
	case 0, 1: // forged in front
		ne = append([][]byte{forged}, elems...)
	case 2: // forged behind
		ne = append(append([][]byte{}, elems...), forged)
	case 3: // duplicate of a genuine entry (still all valid: must verify)
		ne = append(append([][]byte{}, elems...), g)
	case 4: // drop one
		ne = append([][]byte{}, elems[:len(elems)-1]...)
	default: // forged replaces the genuine one
		for _, e := range elems {
			if &e[0] == &g[0] {
				ne = append(ne, forged)
			} else {
				ne = append(ne, e)
			}
		}
	}
	return replaceSpan(data, spans[3], arrayItem(ne))
}

// reheadProtected: the body protected bucket re-encoded with a non-shortest map head (a1 .. -> b8 01 ..): the same map,
// other octets — what was authenticated is the octets
func reheadProtected(data []byte) ([]byte, bool) {
	_, spans := topMembers(data)
	if len(spans) == 0 {
		return data, false
	}
	pc, ok := bstrContent(data[spans[0][0]:spans[0][1]])
	if !ok || len(pc) == 0 || pc[0] < 0xa1 || pc[0] > 0xb7 {
		return data, false
	}
	np := append([]byte{0xb8, pc[0] - 0xa0}, pc[1:]...)
	return replaceSpan(data, spans[0], bstrItem(np)), true
}

// reheadPayload: the payload member re-encoded with a non-shortest head on its content (a map, an array or a byte string
// — what a typed payload is on the wire): the same value for a typed reader, other octets under the signature / tag
func reheadPayload(data []byte) ([]byte, bool) {
	_, spans := topMembers(data)
	if len(spans) < 4 {
		return data, false
	}
	pc, ok := bstrContent(data[spans[2][0]:spans[2][1]])
	if !ok || len(pc) == 0 {
		return data, false
	}
	mt, ai := pc[0]>>5, pc[0]&0x1f
	if (mt != 5 && mt != 4 && mt != 2) || ai > 23 {
		return data, false
	}
	np := append([]byte{mt<<5 | 24, ai}, pc[1:]...)
	return replaceSpan(data, spans[2], bstrItem(np)), true
}

// mapEntries: the (key item, value item) pairs of a definite-length map item
func mapEntries(item []byte) ([][2][]byte, bool) {
	if len(item) == 0 || item[0]>>5 != 5 {
		return nil, false
	}
	ai := item[0] & 0x1f
	hl := 1
	var n uint64
	switch {
	case ai < 24:
		n = uint64(ai)
	case ai == 24 && len(item) >= 2:
		n, hl = uint64(item[1]), 2
	case ai == 25 && len(item) >= 3:
		n, hl = uint64(item[1])<<8|uint64(item[2]), 3
	default:
		return nil, false
	}
	var out [][2][]byte
	i := hl
	for j := uint64(0); j < n; j++ {
		ke := itemEnd(item, i)
		if ke <= i || ke > len(item) {
			return nil, false
		}
		ve := itemEnd(item, ke)
		if ve <= ke || ve > len(item) {
			return nil, false
		}
		out = append(out, [2][]byte{item[i:ke], item[ke:ve]})
		i = ve
	}
	return out, i == len(item)
}

func mapItem(entries [][2][]byte) []byte {
	out := (&cnode{mt: 5}).emit(nil, nil, nil)[:0]
	n := len(entries)
	if n < 24 {
		out = append(out, 0xa0|byte(n))
	} else {
		out = append(out, 0xb8, byte(n))
	}
	for _, e := range entries {
		out = append(append(out, e[0]...), e[1]...)
	}
	return out
}

// unprotTampers: the unprotected bucket of a message with one of its entries (label `label`, a one-octet unsigned key)
// dropped, emptied (h”), moved to another label, or shadowed by a second entry under the same label placed in front —
// nothing else touched.  What the entry carried (an IV, a Partial IV, a kid) is then missing, or present twice.
func unprotTampers(r *rand.Rand, data []byte, label byte) [][]byte {
	_, spans := topMembers(data)
	if len(spans) < 3 {
		return nil
	}
	entries, ok := mapEntries(data[spans[1][0]:spans[1][1]])
	if !ok {
		return nil
	}
	idx := -1
	for i, e := range entries {
		if len(e[0]) == 1 && e[0][0] == label {
			idx = i
		}
	}
	if idx < 0 {
		return nil
	}
	var out [][]byte
	with := func(es [][2][]byte) { out = append(out, replaceSpan(data, spans[1], mapItem(es))) }
	clone := func() [][2][]byte { return append([][2][]byte{}, entries...) }
	dropped := append(clone()[:idx], entries[idx+1:]...)
	with(dropped)
	emptied := clone()
	emptied[idx] = [2][]byte{entries[idx][0], {0x40}}
	with(emptied)
	moved := clone()
	moved[idx] = [2][]byte{{0x04}, entries[idx][1]}
	if label != 0x04 {
		hasKid := false
		for _, e := range entries {
			if len(e[0]) == 1 && e[0][0] == 0x04 {
				hasKid = true
			}
		}
		if !hasKid {
			with(moved)
		}
	}
	// the value without its first octet(s): a shorter IV is another IV, never padded back (it matters when the octets cut
	// off were zero)
	if vc, ok := bstrContent(entries[idx][1]); ok && len(vc) > 1 {
		for _, cut := range []int{1, len(vc) / 2} {
			if cut > 0 && cut < len(vc) {
				short := clone()
				short[idx] = [2][]byte{entries[idx][0], bstrItem(vc[cut:])}
				with(short)
			}
		}
	}
	// a second entry under the same label in front of the genuine one (duplicate label: the map is not well-formed)
	shadow := append([][2][]byte{{entries[idx][0], bstrItem(randBytes(r, 1+r.Intn(12)))}}, entries...)
	with(shadow)
	return out
}

// reframe: the members of a message re-framed as its sibling kind, with the same protected / unprotected / payload /
// authenticator — the recipient list dropped (COSE_Mac -> COSE_Mac0, COSE_Encrypt -> COSE_Encrypt0) or a one-recipient
// list added (the other way round).  Only the context string of the authenticated structure tells the siblings apart.
func reframe(kind string, data []byte) (string, []byte, bool) {
	_, spans := topMembers(data)
	sib := map[string]string{"mac": "mac0", "mac0": "mac", "encrypt": "encrypt0", "encrypt0": "encrypt"}[kind]
	want := map[string]int{"mac": 5, "mac0": 4, "encrypt": 4, "encrypt0": 3}[kind]
	if sib == "" || len(spans) != want {
		return kind, data, false
	}
	var members [][]byte
	for _, sp := range spans {
		members = append(members, data[sp[0]:sp[1]])
	}
	if kind == "mac" || kind == "encrypt" {
		members = members[:len(members)-1]
	} else {
		members = append(members, []byte{0x81, 0x83, 0x40, 0xa0, 0x40})
	}
	return sib, append(append([]byte{}, kindPrefix[sib]...), arrayItem(members)...), true
}

// extendLaterSignerBucket: the last signature entry of a COSE_Sign keeps its signature and unprotected bucket while its
// protected bucket gains one header (the algorithm stays): what that signer signed is no longer what the message says
func extendLaterSignerBucket(data []byte) ([]byte, bool) {
	_, spans := topMembers(data)
	if len(spans) < 4 {
		return data, false
	}
	elems, ok := arrayElems(data[spans[3][0]:spans[3][1]])
	if !ok || len(elems) < 2 {
		return data, false
	}
	last := elems[len(elems)-1]
	parts, ok := arrayElems(last)
	if !ok || len(parts) != 3 {
		return data, false
	}
	pc, ok := bstrContent(parts[0])
	if !ok || len(pc) == 0 || pc[0] < 0xa0 || pc[0] >= 0xb7 {
		return data, false
	}
	np := append([]byte{pc[0] + 1}, pc[1:]...)
	np = append(np, 0x18, 0x63, 0x18, 0x63) // 99: 99
	ne := append(append([][]byte{}, elems[:len(elems)-1]...), arrayItem([][]byte{bstrItem(np), parts[1], parts[2]}))
	return replaceSpan(data, spans[3], arrayItem(ne)), true
}

// history: the same message object, verifier and key objects used twice (msg.reuse, seq); the second use must answer
// as it would on fresh objects
func history(r *rand.Rand, p *producedMsg) []string {
	keys := strings.Join(p.pubKeys(), " | ")
	var out []string
	// same decoded object, second call with other / the same external data
	ext2 := []string{p.ext, hx(randBytes(r, 1+r.Intn(8))), "~", "-"}[r.Intn(4)]
	out = append(out, fmt.Sprintf("msg.reuse %s %s %s %s %s = | %s", p.kind, p.mode, p.ext, hx(p.data), ext2, keys))
	// a second message decoded into the same object
	for j := 0; j < 2; j++ {
		kind, data, ext, tk := tamperParts(r, p)
		if kind != p.kind || strings.Join(tk, " | ") != keys {
			continue
		}
		out = append(out, fmt.Sprintf("msg.reuse %s %s %s %s %s %s | %s", p.kind, p.mode, p.ext, hx(p.data), ext, hx(data), keys))
		// and the other way round: first the altered one, then the genuine one
		out = append(out, fmt.Sprintf("msg.reuse %s %s %s %s %s %s | %s", p.kind, p.mode, ext, hx(data), p.ext, hx(p.data), keys))
	}
	// the same key objects across produce and consume
	if p.line != "" {
		out = append(out, "seq "+p.line+" ;; "+p.consumeLine(p.data, p.ext, p.pubKeys()))
	}
	for len(out) < 3 {
		out = append(out, out[0])
	}
	return out
}

// top-level array members of an (optionally tagged) message, as byte ranges
func topMembers(b []byte) (start int, spans [][2]int) {
	i := 0
	for i < len(b) && (b[i]>>5) == 6 {
		if b[i]&0x1f == 24 {
			i += 2
		} else {
			i++
		}
	}
	if i >= len(b) || b[i]>>5 != 4 {
		return 0, nil
	}
	n := int(b[i] & 0x1f)
	i++
	start = i
	for k := 0; k < n; k++ {
		e := itemEnd(b, i)
		if e < 0 {
			return start, nil
		}
		spans = append(spans, [2]int{i, e})
		i = e
	}
	return start, spans
}

// itemEnd returns the end offset of the well-formed definite-length item at b[i:], or -1
func itemEnd(b []byte, i int) int {
	if i >= len(b) {
		return -1
	}
	mt, ai := b[i]>>5, int(b[i]&0x1f)
	i++
	var n uint64
	switch {
	case ai < 24:
		n = uint64(ai)
	case ai == 24:
		if i+1 > len(b) {
			return -1
		}
		n = uint64(b[i])
		i++
	case ai == 25:
		if i+2 > len(b) {
			return -1
		}
		n = uint64(b[i])<<8 | uint64(b[i+1])
		i += 2
	case ai == 26:
		if i+4 > len(b) {
			return -1
		}
		n = uint64(b[i])<<24 | uint64(b[i+1])<<16 | uint64(b[i+2])<<8 | uint64(b[i+3])
		i += 4
	case ai == 27:
		if i+8 > len(b) {
			return -1
		}
		for k := 0; k < 8; k++ {
			n = n<<8 | uint64(b[i+k])
		}
		i += 8
	default:
		return -1
	}
	switch mt {
	case 0, 1, 7:
		return i
	case 2, 3:
		if uint64(len(b)-i) < n {
			return -1
		}
		return i + int(n)
	case 4:
		for k := uint64(0); k < n; k++ {
			if i = itemEnd(b, i); i < 0 {
				return -1
			}
		}
		return i
	case 5:
		for k := uint64(0); k < 2*n; k++ {
			if i = itemEnd(b, i); i < 0 {
				return -1
			}
		}
		return i
	default:
		return itemEnd(b, i)
	}
}

func spliceField(r *rand.Rand, a, b []byte) []byte {
	_, sa := topMembers(a)
	_, sb := topMembers(b)
	if len(sa) == 0 || len(sa) != len(sb) {
		return a
	}
	k := r.Intn(len(sa))
	out := append([]byte{}, a[:sa[k][0]]...)
	out = append(out, b[sb[k][0]:sb[k][1]]...)
	return append(out, a[sa[k][1]:]...)
}

var kindPrefix = map[string][]byte{"sign1": {0xd2}, "sign": {0xd8, 0x62}, "mac0": {0xd1}, "mac": {0xd8, 0x61}, "encrypt0": {0xd0}, "encrypt": {0xd8, 0x60}}

func retag(b []byte, kind string) []byte {
	return append(append([]byte{}, kindPrefix[kind]...), removeTag(b)...)
}
