module verif/harness

go 1.20

require (
	github.com/fxamacker/cbor/v2 v2.7.0
	github.com/ldclabs/cose v0.0.0
	golang.org/x/crypto v0.26.0
)

require (
	github.com/x448/float16 v0.8.4 // indirect
	golang.org/x/sys v0.23.0 // indirect
)

replace github.com/ldclabs/cose => /repo
