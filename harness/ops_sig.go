package main

import (
	goecdsa "crypto/ecdsa"
	goed25519 "crypto/ed25519"
	"crypto/elliptic"
	"crypto/sha256"
	"crypto/sha512"
	"encoding/asn1"
	"fmt"
	"math/big"
	"math/rand"
	"strconv"
	"strings"

	"github.com/ldclabs/cose/iana"
	"github.com/ldclabs/cose/key"
	"github.com/ldclabs/cose/key/ecdsa"
	"github.com/ldclabs/cose/key/ed25519"
)

func init() {
	register(&family{name: "sig", gen: genSigOps, exec: execSig})
	propFamilies["C10"] = []string{"sig"}
	propFamilies["C15"] = []string{"sig"}
	propFamilies["C16"] = append(propFamilies["C16"], "sig")
	propFamilies["C17"] = append(propFamilies["C17"], "sig")
}

func keyDump(k key.Key, err error) string {
	if err != nil {
		return "err"
	}
	b, err := k.MarshalCBOR()
	if err != nil {
		return "err-encode"
	}
	return "ok " + hx(b)
}

func execSig(op string, a []string) string {
	switch op {
	case "sig.topublic":
		// deriving a key leaves the key it was derived from as it was (members, their Go types, the order of key_ops)
		k := keyFromToks(a[1:])
		before := fmt.Sprintf("%#v", k)
		var pub key.Key
		var err error
		if a[0] == "ed25519" {
			pub, err = ed25519.ToPublicKey(k)
		} else {
			pub, err = ecdsa.ToPublicKey(k)
		}
		if fmt.Sprintf("%#v", k) != before {
			return "SOURCE-KEY-CHANGED " + before + " -> " + fmt.Sprintf("%#v", k)
		}
		return keyDump(pub, err)
	case "sig.compress":
		k := keyFromToks(a)
		before := fmt.Sprintf("%#v", k)
		c, err := ecdsa.ToCompressedKey(k)
		if fmt.Sprintf("%#v", k) != before {
			return "SOURCE-KEY-CHANGED " + before + " -> " + fmt.Sprintf("%#v", k)
		}
		return keyDump(c, err)
	case "sig.verifierkey":
		// the key a verifier reports: never private material
		k := keyFromToks(a)
		before := fmt.Sprintf("%#v", k)
		v, err := k.Verifier()
		if fmt.Sprintf("%#v", k) != before {
			return "SOURCE-KEY-CHANGED " + before + " -> " + fmt.Sprintf("%#v", k)
		}
		if err != nil {
			return "err"
		}
		return keyDump(v.Key(), nil)
	case "sig.sign":
		// sig.sign <data> <key…> | <opsAfter…>
		kt, after := splitBar(a[1:])
		k := keyFromToks(kt)
		s, err := k.Signer()
		if err != nil {
			return "new:err"
		}
		applyOpsAfter(k, after)
		sig, err := s.Sign(unhxOpt(a[0])) // `~`: the empty message given as a nil slice
		if err != nil {
			return "new:ok sign:err"
		}
		if int(k.Alg()) == iana.AlgorithmEdDSA {
			return "new:ok sign:ok:" + hx(sig)
		}
		return fmt.Sprintf("new:ok sign:ok len=%d", len(sig))
	case "sig.decode":
		// sig.decode <alg> <hex>: the signature codec alone (RFC 9053 section 2.1: r || s, each of the curve's length)
		alg, _ := strconv.Atoi(a[0])
		c := ecCurveOf(alg)
		if c == nil {
			return "bad-op"
		}
		rr, ss, err := ecdsa.DecodeSignature(c, unhx(a[1]))
		if err != nil {
			return "err"
		}
		return "ok " + rr.String() + " " + ss.String()
	case "sig.encode":
		alg, _ := strconv.Atoi(a[0])
		c := ecCurveOf(alg)
		rr, ok1 := new(big.Int).SetString(a[1], 10)
		ss, ok2 := new(big.Int).SetString(a[2], 10)
		if c == nil || !ok1 || !ok2 {
			return "bad-op"
		}
		b, err := ecdsa.EncodeSignature(c, rr, ss)
		if err != nil {
			return "err"
		}
		return "ok " + hx(b)
	case "sig.verify":
		// sig.verify <data> <sig> <key…> | <opsAfter…>
		kt, after := splitBar(a[2:])
		k := keyFromToks(kt)
		v, err := k.Verifier()
		if err != nil {
			return "new:err"
		}
		applyOpsAfter(k, after)
		sl := newSlack(unhxOpt(a[0]), unhx(a[1]))
		verr := v.Verify(sl.views[0], sl.views[1])
		if !sl.intact() {
			return "ARGUMENT-WRITTEN"
		}
		if verr != nil {
			return "new:ok verify:err"
		}
		return "new:ok verify:ok"
	}
	return "unknown-op"
}

var sigAlgs = []int{iana.AlgorithmES256, iana.AlgorithmES384, iana.AlgorithmES512, iana.AlgorithmEdDSA}
var sigOpsChoices = [][]int{{1}, {2}, {1, 2}, {2, 1}, {}, {1, 3}, {9}, {2, 2}}

func hashFor(alg int, data []byte) []byte {
	switch alg {
	case iana.AlgorithmES256:
		h := sha256.Sum256(data)
		return h[:]
	case iana.AlgorithmES384:
		h := sha512.Sum384(data)
		return h[:]
	default:
		h := sha512.Sum512(data)
		return h[:]
	}
}

func mutateSig(r *rand.Rand, sig []byte) []byte {
	switch r.Intn(8) {
	case 0, 1, 2:
		return sig
	case 3:
		return flipBit(r, sig)
	case 4:
		return sig[:r.Intn(len(sig))]
	case 5:
		return append(append([]byte{}, sig...), byte(r.Intn(256)))
	case 6:
		return append([]byte{0}, sig...)
	default:
		return randBytes(r, len(sig))
	}
}

func ecCurveOf(alg int) elliptic.Curve {
	switch alg {
	case iana.AlgorithmES256:
		return elliptic.P256()
	case iana.AlgorithmES384:
		return elliptic.P384()
	case iana.AlgorithmES512:
		return elliptic.P521()
	}
	return nil
}

func genSigOps(r *rand.Rand, n int) []string {
	var out, extra []string // extra: appended after the rest
	for i := 0; i < n; i++ {
		if i%4 == 0 { // the signature codec at and around the fixed length, with leading-zero halves; integers at the size limit
			ca := []int{iana.AlgorithmES256, iana.AlgorithmES384, iana.AlgorithmES512}[r.Intn(3)]
			sz := (ecCurveOf(ca).Params().N.BitLen() + 7) / 8
			l := []int{2 * sz, 2 * sz, 2*sz - 2, 2*sz - 1, 2*sz + 1, 2*sz + 2, sz, 2, 0, 2 * sz, 4 * sz}[r.Intn(11)]
			sg := randBytes(r, l)
			if r.Intn(2) == 0 && l >= 2 { // both halves start with a zero octet
				sg[0], sg[l/2] = 0, 0
			}
			out = append(out, fmt.Sprintf("sig.decode %d %s", ca, hx(sg)))
			lim := new(big.Int).Lsh(big.NewInt(1), uint(8*sz))
			pick := func() *big.Int {
				switch r.Intn(5) {
				case 0:
					return big.NewInt(int64(r.Intn(3)))
				case 1:
					return new(big.Int).Sub(lim, big.NewInt(1))
				case 2:
					return new(big.Int).Set(lim)
				case 3:
					return new(big.Int).Add(lim, big.NewInt(int64(1+r.Intn(1000))))
				}
				return new(big.Int).SetBytes(randBytes(r, 1+r.Intn(sz)))
			}
			out = append(out, fmt.Sprintf("sig.encode %d %s %s", ca, pick().String(), pick().String()))
		}
		if i%13 == 10 { // a well-formed signature key whose kty member is missing, zero, null or another type's: no implementation
			a2 := sigAlgs[(i/13)%len(sigAlgs)]
			ktyOverride = []string{"omit", "int:0", "nil", "int:4", "u8:0", "int:3"}[(i/13/len(sigAlgs))%6]
			var t string
			if a2 == iana.AlgorithmEdDSA {
				t = genEdKey(r).tokens(r, (i/13)%3, nil)
			} else {
				t = genEcScalar(r, a2).tokens(r, (i/13)%4, nil)
			}
			ktyOverride = ""
			out = append(out, "key.factory Signer "+t, "key.factory Verifier "+t, "sig.verifierkey "+t, fmt.Sprintf("sig.sign %s %s | same", hx(randBytes(r, 5)), t))
		}
		if i%25 == 3 {
			// fixed slots, every signature algorithm in turn: messages beyond 32 KiB (where a pre-hashing or streaming
			// implementation would change gear) signed by the library and checked by the reference, and the other way round
			r2 := rand.New(rand.NewSource(int64(i)*15485863 + 11))
			a2 := sigAlgs[(i/25)%len(sigAlgs)]
			bigMsg := randBytes(r2, []int{32769, 65536, 49152, 98304, 100003}[(i/25/len(sigAlgs))%5])
			if a2 == iana.AlgorithmEdDSA {
				k2 := genEdKey(r2)
				t2 := k2.tokens(r2, 0, nil)
				sg := goed25519.Sign(goed25519.NewKeyFromSeed(k2.seed), bigMsg)
				extra = append(extra, fmt.Sprintf("sig.sign %s %s | same", hx(bigMsg), t2), fmt.Sprintf("sig.verify %s %s %s | same", hx(bigMsg), hx(sg), t2))
			} else {
				k2 := genEcScalar(r2, a2)
				t2 := k2.tokens(r2, 0, nil)
				r1, s1, _ := goecdsa.Sign(rngReader{r2}, k2.goPriv(), hashFor(a2, bigMsg))
				sg := append(r1.FillBytes(make([]byte, k2.size())), s1.FillBytes(make([]byte, k2.size()))...)
				extra = append(extra, fmt.Sprintf("sig.sign %s %s | same", hx(bigMsg), t2), fmt.Sprintf("sig.verify %s %s %s | same", hx(bigMsg), hx(sg), t2))
			}
		}
		if i%25 == 8 {
			// fixed slots, the three curves in turn: compressed public keys (boolean y) whose x is not an abscissa of the
			// curve — random octets (about half are not), the field prime itself, the prime plus one, all ones — given to
			// every way of obtaining a verifier: refused, never a nil point
			r2 := rand.New(rand.NewSource(int64(i)*49979687 + 13))
			a2 := []int{iana.AlgorithmES256, iana.AlgorithmES384, iana.AlgorithmES512}[(i/25)%3]
			k2 := genEcScalar(r2, a2)
			sz := k2.size()
			pr := k2.curve.Params().P
			ones := make([]byte, sz)
			for j := range ones {
				ones[j] = 0xff
			}
			xs := [][]byte{randBytes(r2, sz), randBytes(r2, sz), pr.FillBytes(make([]byte, sz)), new(big.Int).Add(pr, big.NewInt(1)).FillBytes(make([]byte, sz)), ones}
			for j, x := range xs {
				t2 := fmt.Sprintf("{ int:1 int:2 int:-1 int:%d int:-2 b:%s int:-3 %s int:3 int:%d }", k2.crv, hx(x), []string{"T", "F"}[j%2], a2)
				extra = append(extra, "sig.verifierkey "+t2, "key.factory Verifier "+t2, fmt.Sprintf("sig.verify %s %s %s | same", hx(randBytes(r2, 9)), hx(randBytes(r2, 2*sz)), t2))
			}
		}
		alg := sigAlgs[r.Intn(len(sigAlgs))]
		data := randBytes(r, msgLen(r, i%40 == 0))
		if i%9 == 4 { // sizes at which a buffered / pre-hashed implementation would change gear
			data = randBytes(r, []int{4096, 4097, 8191, 8192, 8193, 16384, 16385, 32768}[r.Intn(8)])
		}
		if i%7 == 2 { // messages that have the length of a digest (an implementation must hash them all the same), every algorithm in turn
			alg = sigAlgs[(i/7)%len(sigAlgs)]
			data = randBytes(r, []int{32, 48, 64, 20, 28}[(i/7/len(sigAlgs))%5])
			if (i/7/len(sigAlgs))%2 == 0 { // the digest size of the algorithm itself
				data = randBytes(r, map[int]int{iana.AlgorithmES256: 32, iana.AlgorithmES384: 48, iana.AlgorithmES512: 64, iana.AlgorithmEdDSA: 64}[alg])
			}
		}
		dataTok := func(d []byte) string { return hx(d) }
		if i%11 == 5 { // the empty message, handed over as a nil slice (RFC 8032 test 1; an empty bytes.Buffer)
			data = []byte{}
			dataTok = func(d []byte) string {
				if len(d) == 0 {
					return "~"
				}
				return hx(d)
			}
		}
		after := "same"
		switch r.Intn(6) {
		case 0:
			after = "del"
		case 1:
			after = genOpsValue(r)
		}
		if alg == iana.AlgorithmEdDSA {
			k := genEdKey(r)
			extras := genCommonExtras(r, alg, sigOpsChoices)
			form := r.Intn(3)
			if i%7 == 4 { // private keys whose key_ops is a key.Ops value naming sign (and verify): derivations must not touch it
				extras = []string{"int:4", []string{"ops[ 1 2 ]", "ops[ 1 ]", "ops[ 2 1 ]"}[(i/7)%3]}
				form = (i / 7) % 2
			}
			toks := k.tokens(r, form, extras)
			if r.Intn(12) == 0 { // mismatching embedded public key / wrong sizes
				k2 := genEdKey(r)
				toks = (&edKey{seed: k.seed, pub: k2.pub}).tokens(r, 1, extras)
			}
			if i%13 == 6 { // a valid x next to a d member that is present but no usable seed (empty, null, a number, text, short)
				badD := []string{"b:-", "nil", "int:1", "t:73656564", "bnil", "b:" + hx(k.seed[:31]), "bs:-", "[ int:1 ]"}[r.Intn(8)]
				toks = fmt.Sprintf("{ int:1 int:1 int:-1 %s int:-2 b:%s int:-4 %s }", intToken(r, 6), hx(k.pub), badD)
				form = 1
			}
			sig := goed25519.Sign(goed25519.NewKeyFromSeed(k.seed), data)
			out = append(out, "sig.topublic ed25519 "+toks, "sig.verifierkey "+toks)
			if form <= 1 {
				out = append(out, fmt.Sprintf("sig.sign %s %s | %s", dataTok(data), toks, after))
			}
			d2 := data
			if r.Intn(8) == 0 && len(data) > 0 {
				d2 = flipBit(r, data)
			}
			out = append(out, fmt.Sprintf("sig.verify %s %s %s | %s", dataTok(d2), hx(mutateSig(r, sig)), toks, after))
			if i%3 == 0 { // two different keys under one kid, used one after the other: each acts for itself
				kid := []string{"int:2", "b:" + hx(randBytes(r, 1+r.Intn(4)))}
				ka, kb := genEdKey(r), genEdKey(r)
				ta, tb := ka.tokens(r, 0, kid), kb.tokens(r, r.Intn(2), kid)
				sb := goed25519.Sign(goed25519.NewKeyFromSeed(kb.seed), data)
				out = append(out, fmt.Sprintf("seq sig.sign %s %s | same ;; sig.sign %s %s | same", hx(data), ta, hx(data), tb))
				out = append(out, fmt.Sprintf("seq sig.topublic ed25519 %s ;; sig.topublic ed25519 %s", ta, tb))
				out = append(out, fmt.Sprintf("seq sig.sign %s %s | same ;; sig.verify %s %s %s | same", hx(data), ta, hx(data), hx(sb), tb))
				out = append(out, fmt.Sprintf("seq sig.verify %s %s %s | same ;; sig.verify %s %s %s | same", hx(data), hx(sb), ta, hx(data), hx(sb), kb.tokens(r, 2, kid)))
			}
			continue
		}
		k := genEcScalar(r, alg)
		extras := genCommonExtras(r, alg, sigOpsChoices)
		form := r.Intn(5)
		if i%7 == 4 {
			extras = []string{"int:4", []string{"ops[ 1 2 ]", "ops[ 1 ]", "ops[ 2 1 ]"}[(i/7)%3]}
			form = (i / 7) % 2
		}
		toks := k.tokens(r, form, extras)
		if r.Intn(8) == 0 { // x of another key, off-curve x, or an embedded coordinate that is only a tail of the true one
			k2 := genEcScalar(r, alg)
			bad := &ecKey{alg: alg, crv: k.crv, curve: k.curve, d: k.d, x: k2.x, y: k.y}
			bform := 1 + r.Intn(4)
			switch r.Intn(5) {
			case 4: // compressed public key whose x is no abscissa of the curve (x+1, x+2, … mostly are not), or >= p
				bad.x = new(big.Int).Add(k.x, big.NewInt(int64(1+r.Intn(3))))
				if r.Intn(4) == 0 {
					bad.x = new(big.Int).Sub(new(big.Int).Lsh(big.NewInt(1), uint(8*k.size())), big.NewInt(int64(1+r.Intn(5))))
					if alg == iana.AlgorithmES512 {
						bad.x = new(big.Int).Sub(new(big.Int).Lsh(big.NewInt(1), 521), big.NewInt(1))
					}
				}
				if r.Intn(3) == 0 { // wider than the curve's coordinates (up to the 66 octets CheckKey admits)
					w := k.size() + 1 + r.Intn(66-k.size()+1)
					if w > 66 {
						w = 66
					}
					wide := randBytes(r, w)
					wide[0] |= 1
					bad.x = new(big.Int).SetBytes(wide)
				}
				bform = 3
			case 0:
				bad.x = new(big.Int).Add(k.x, big.NewInt(1))
			case 1, 2: // the last 1, 8, size-1 octets of the true coordinate, or zero; private key with public members
				bits := uint(8 * []int{1, 8, k.size() - 1, 0}[r.Intn(4)])
				tail := func(v *big.Int) *big.Int {
					return new(big.Int).And(v, new(big.Int).Sub(new(big.Int).Lsh(big.NewInt(1), bits), big.NewInt(1)))
				}
				bad.x = k.x
				if r.Intn(2) == 0 {
					bad.x = tail(k.x)
				} else {
					bad.y = tail(k.y)
				}
				bform = 1
			}
			toks = bad.tokens(r, bform, extras)
			form = bform
		}
		rr, ss, _ := goecdsa.Sign(rngReader{r}, k.goPriv(), hashFor(alg, data))
		sz := k.size()
		// boundary values of the r||s codec
		if r.Intn(20) == 0 {
			rr = []*big.Int{big.NewInt(1), new(big.Int).Sub(k.curve.Params().N, big.NewInt(1)), new(big.Int).Lsh(big.NewInt(1), uint(r.Intn(8*sz-8)))}[r.Intn(3)]
		}
		sig := append(rr.FillBytes(make([]byte, sz)), ss.FillBytes(make([]byte, sz))...)
		out = append(out, "sig.topublic ecdsa "+toks, "sig.compress "+toks, "sig.verifierkey "+toks)
		if form <= 1 || form == 4 {
			out = append(out, fmt.Sprintf("sig.sign %s %s | %s", dataTok(data), toks, after))
		}
		d2 := data
		if r.Intn(8) == 0 && len(data) > 0 {
			d2 = flipBit(r, data)
		}
		out = append(out, fmt.Sprintf("sig.verify %s %s %s | %s", dataTok(d2), hx(mutateSig(r, sig)), toks, after))
		if i%7 == 3 { // the same (r, s) in ASN.1 DER, the encoding most other APIs use: COSE takes r || s only
			der, _ := asn1.Marshal(struct{ R, S *big.Int }{rr, ss})
			out = append(out, fmt.Sprintf("sig.verify %s %s %s | %s", dataTok(data), hx(der), toks, after))
		}
		if i%5 == 0 { // the same scalar octets as private key on two curves, one after the other: each gets its own d·G
			d := new(big.Int).SetBytes(randBytes(r, 31))
			d.Add(d, big.NewInt(1))
			var lines []string
			for _, a2 := range []int{iana.AlgorithmES256, iana.AlgorithmES384, iana.AlgorithmES512} {
				k2 := ecKeyFromScalar(a2, d)
				lines = append(lines, "sig.topublic ecdsa "+k2.tokensFixedD(r, 31))
			}
			r.Shuffle(len(lines), func(a, b int) { lines[a], lines[b] = lines[b], lines[a] })
			out = append(out, "seq "+strings.Join(lines, " ;; "))
			out = append(out, "seq "+lines[2]+" ;; "+lines[0])
		}
		if i%3 == 0 { // two different keys under one kid (see above)
			kid := []string{"int:2", "b:" + hx(randBytes(r, 1+r.Intn(4)))}
			kb := genEcScalar(r, alg)
			ta, tb := k.tokens(r, 0, kid), kb.tokens(r, 2+r.Intn(2), kid)
			out = append(out, fmt.Sprintf("seq sig.topublic ecdsa %s ;; sig.topublic ecdsa %s", ta, kb.tokens(r, 0, kid)))
			out = append(out, fmt.Sprintf("seq sig.verify %s %s %s | same ;; sig.verify %s %s %s | same", hx(data), hx(sig), k.tokens(r, 2, kid), hx(data), hx(sig), tb))
		}
	}
	return append(out, extra...)
}
