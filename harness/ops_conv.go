package main

import (
	"bytes"
	goecdh "crypto/ecdh"
	goecdsa "crypto/ecdsa"
	goed25519 "crypto/ed25519"
	"crypto/rand"
	"fmt"
	"math/big"
	mrand "math/rand"
	"strconv"

	"github.com/ldclabs/cose/cose"
	"github.com/ldclabs/cose/iana"
	"github.com/ldclabs/cose/key"
	"github.com/ldclabs/cose/key/aesccm"
	"github.com/ldclabs/cose/key/aesgcm"
	"github.com/ldclabs/cose/key/aesmac"
	"github.com/ldclabs/cose/key/chacha20poly1305"
	"github.com/ldclabs/cose/key/ecdh"
	"github.com/ldclabs/cose/key/ecdsa"
	"github.com/ldclabs/cose/key/ed25519"
	"github.com/ldclabs/cose/key/hmac"
)

// Family `conv` (C10, C15, C17): the ways a key comes into being — GenerateKey, KeyFrom*, the conversions from and to the
// Go standard library's key types — and the key-set / signer-set look-ups.  Every op is a specification op: the harness
// checks the stated invariants against the Go standard library and answers "ok"; the model answers "ok" for every
// well-formed request.  Anything else is a failing input.

func init() {
	register(&family{name: "conv", gen: genConvOps, exec: execConv})
}

func cborOf(k key.Key) string {
	b, err := key.MarshalCBOR(k)
	if err != nil {
		return "unencodable"
	}
	return hx(b)
}

func sameBytes(k key.Key, label int, want []byte) bool {
	b, err := k.GetBytes(label)
	return err == nil && bytes.Equal(b, want)
}

func execConv(op string, a []string) string {
	switch op {
	case "conv.ed25519":
		seed := unhx(a[0])
		goPriv := goed25519.NewKeyFromSeed(seed)
		goPub := goPriv.Public().(goed25519.PublicKey)
		k, err := ed25519.KeyFromSeed(seed)
		if err != nil {
			return "err"
		}
		k2, _ := ed25519.KeyFromPrivate(goPriv)
		if cborOf(k) != cborOf(k2) {
			return "KeyFromSeed != KeyFromPrivate"
		}
		if k.Has(iana.OKPKeyParameterX) || !sameBytes(k, iana.OKPKeyParameterD, seed) || !sameBytes(k, iana.KeyParameterKid, key.SumKid(goPub)) ||
			k.Kty() != iana.KeyTypeOKP || int(k.Alg()) != iana.AlgorithmEdDSA {
			return "private key members wrong: " + cborOf(k)
		}
		// the imported key owns its octets: writing to the source values afterwards changes nothing
		{
			seed2 := append([]byte{}, seed...)
			priv2 := append(goed25519.PrivateKey{}, goPriv...)
			ka, _ := ed25519.KeyFromSeed(seed2)
			kb, _ := ed25519.KeyFromPrivate(priv2)
			// (KeyFromPublic keeps the caller's slice: the code as it stands, no property speaks about it, not checked)
			for i := range seed2 {
				seed2[i] ^= 0xa5
			}
			for i := range priv2 {
				priv2[i] = 0
			}
			if cborOf(ka) != cborOf(k) || cborOf(kb) != cborOf(k) {
				return "imported key follows later writes to the source value"
			}
		}
		back, err := ed25519.KeyToPrivate(k)
		if err != nil || !bytes.Equal(back, goPriv) {
			return "KeyToPrivate(KeyFromPrivate(p)) != p"
		}
		for i := range back { // and the exported value is the caller's own
			back[i] = 0
		}
		if cborOf(k) != cborOf(k2) {
			return "key follows later writes to the exported private key"
		}
		pub, _ := ed25519.KeyFromPublic(goPub)
		if pub.Has(iana.OKPKeyParameterD) || !sameBytes(pub, iana.OKPKeyParameterX, goPub) {
			return "public key members wrong: " + cborOf(pub)
		}
		derived, err := ed25519.ToPublicKey(k)
		if err != nil || cborOf(derived) != cborOf(pub) {
			return "ToPublicKey(private) != KeyFromPublic(public): " + cborOf(derived) + " vs " + cborOf(pub)
		}
		for _, kk := range []key.Key{k, pub, derived} {
			p, err := ed25519.KeyToPublic(kk)
			if err != nil || !bytes.Equal(p, goPub) {
				return "KeyToPublic wrong"
			}
		}
		s, err := ed25519.NewSigner(k)
		if err != nil {
			return "NewSigner failed"
		}
		msg := []byte("conv")
		sig, err := s.Sign(msg)
		if err != nil || !goed25519.Verify(goPub, msg, sig) {
			return "library signature not accepted by crypto/ed25519"
		}
		v, err := ed25519.NewVerifier(pub)
		if err != nil || v.Verify(msg, goed25519.Sign(goPriv, msg)) != nil {
			return "crypto/ed25519 signature not accepted by the library"
		}
		return "ok"
	case "conv.ecdsa":
		alg, _ := strconv.Atoi(a[0])
		d := new(big.Int).SetBytes(unhx(a[1]))
		ek := ecKeyFromScalar(alg, d)
		goPriv := ek.goPriv()
		size := ek.size()
		k, err := ecdsa.KeyFromPrivate(goPriv)
		if err != nil {
			return "err"
		}
		if k.Has(iana.EC2KeyParameterX) || k.Has(iana.EC2KeyParameterY) || int(k.Alg()) != alg || k.Kty() != iana.KeyTypeEC2 {
			return "private key members wrong: " + cborOf(k)
		}
		if db, _ := k.GetBytes(iana.EC2KeyParameterD); new(big.Int).SetBytes(db).Cmp(d) != 0 {
			return "private scalar changed"
		}
		back, err := ecdsa.KeyToPrivate(k)
		if err != nil || back.D.Cmp(d) != 0 || back.X.Cmp(ek.x) != 0 || back.Y.Cmp(ek.y) != 0 {
			return "KeyToPrivate(KeyFromPrivate(p)) != p"
		}
		{ // the imported key owns its octets
			priv2 := &goecdsa.PrivateKey{PublicKey: goecdsa.PublicKey{Curve: ek.curve, X: new(big.Int).Set(ek.x), Y: new(big.Int).Set(ek.y)}, D: new(big.Int).Set(d)}
			ka, _ := ecdsa.KeyFromPrivate(priv2)
			kb, _ := ecdsa.KeyFromPublic(&priv2.PublicKey)
			wantB := cborOf(kb)
			priv2.D.Add(priv2.D, big.NewInt(1))
			priv2.X.Add(priv2.X, big.NewInt(1))
			priv2.Y.SetInt64(0)
			back.D.SetInt64(1)
			if cborOf(ka) != cborOf(k) || cborOf(kb) != wantB {
				return "imported key follows later writes to the source value"
			}
		}
		pub, err := ecdsa.KeyFromPublic(&goPriv.PublicKey)
		if err != nil || pub.Has(iana.EC2KeyParameterD) {
			return "KeyFromPublic wrong"
		}
		if !sameBytes(pub, iana.EC2KeyParameterX, ek.x.FillBytes(make([]byte, size))) || !sameBytes(pub, iana.EC2KeyParameterY, ek.y.FillBytes(make([]byte, size))) {
			return "public coordinates are not the curve-length encodings: " + cborOf(pub)
		}
		derived, err := ecdsa.ToPublicKey(k)
		if err != nil || cborOf(derived) != cborOf(pub) {
			return "ToPublicKey(private) != KeyFromPublic(public): " + cborOf(derived) + " vs " + cborOf(pub)
		}
		comp, err := ecdsa.ToCompressedKey(pub)
		if err != nil {
			return "ToCompressedKey failed"
		}
		comp2, err := ecdsa.ToCompressedKey(comp)
		if err != nil || cborOf(comp2) != cborOf(comp) {
			return "compressing a compressed key changes it"
		}
		for _, kk := range []key.Key{k, pub, derived, comp} {
			p, err := ecdsa.KeyToPublic(kk)
			if err != nil || p.X.Cmp(ek.x) != 0 || p.Y.Cmp(ek.y) != 0 {
				return "KeyToPublic wrong for " + cborOf(kk)
			}
		}
		s, err := ecdsa.NewSigner(k)
		if err != nil {
			return "NewSigner failed"
		}
		msg := []byte("conv")
		sig, err := s.Sign(msg)
		if err != nil || len(sig) != 2*size {
			return "signature length"
		}
		if !goecdsa.Verify(&goPriv.PublicKey, hashFor(alg, msg), new(big.Int).SetBytes(sig[:size]), new(big.Int).SetBytes(sig[size:])) {
			return "library signature not accepted by crypto/ecdsa"
		}
		rr, ss, _ := goecdsa.Sign(rand.Reader, goPriv, hashFor(alg, msg))
		indep := append(rr.FillBytes(make([]byte, size)), ss.FillBytes(make([]byte, size))...)
		for _, kk := range []key.Key{pub, comp} {
			v, err := ecdsa.NewVerifier(kk)
			if err != nil || v.Verify(msg, indep) != nil || v.Verify(msg, sig) != nil {
				return "verification under " + cborOf(kk) + " failed"
			}
		}
		return "ok"
	case "conv.ecdh":
		crv, _ := strconv.Atoi(a[0])
		var c goecdh.Curve
		switch crv {
		case 1:
			c = goecdh.P256()
		case 2:
			c = goecdh.P384()
		case 3:
			c = goecdh.P521()
		default:
			c = goecdh.X25519()
		}
		pa, err1 := c.NewPrivateKey(unhx(a[1]))
		pb, err2 := c.NewPrivateKey(unhx(a[2]))
		if err1 != nil || err2 != nil {
			return "err"
		}
		ka, err := ecdh.KeyFromPrivate(pa)
		if err != nil {
			return "KeyFromPrivate failed"
		}
		back, err := ecdh.KeyToPrivate(ka)
		if err != nil || !back.Equal(pa) {
			return "KeyToPrivate(KeyFromPrivate(p)) != p"
		}
		pubB, err := ecdh.KeyFromPublic(pb.PublicKey())
		if err != nil || pubB.Has(iana.EC2KeyParameterD) {
			return "KeyFromPublic wrong"
		}
		kb, _ := ecdh.KeyFromPrivate(pb)
		derivedB, err := ecdh.ToPublicKey(kb)
		if err != nil || derivedB.Has(iana.EC2KeyParameterD) {
			return "ToPublicKey wrong"
		}
		want, _ := pa.ECDH(pb.PublicKey())
		e, err := ecdh.NewECDHer(ka)
		if err != nil {
			return "NewECDHer failed"
		}
		remotes := []key.Key{pubB, derivedB}
		if crv != 4 {
			comp, err := ecdh.ToCompressedKey(pubB)
			if err != nil {
				return "ToCompressedKey failed"
			}
			comp2, err := ecdh.ToCompressedKey(comp)
			if err != nil || cborOf(comp2) != cborOf(comp) {
				return "compressing a compressed key changes it"
			}
			remotes = append(remotes, comp)
		}
		for _, r := range remotes {
			p, err := ecdh.KeyToPublic(r)
			if err != nil || !p.Equal(pb.PublicKey()) {
				return "KeyToPublic wrong for " + cborOf(r)
			}
			got, err := e.ECDH(r)
			if err != nil || !bytes.Equal(got, want) {
				return "shared secret differs from crypto/ecdh for " + cborOf(r)
			}
		}
		return "ok"
	case "conv.gen":
		// conv.gen <family> <alg|crv>: two generated keys are valid, differ, carry the default kid, and work
		n, _ := strconv.Atoi(a[1])
		var k1, k2 key.Key
		var err error
		gen := func() (key.Key, error) {
			switch a[0] {
			case "hmac":
				return hmac.GenerateKey(n)
			case "aesmac":
				return aesmac.GenerateKey(n)
			case "aesgcm":
				return aesgcm.GenerateKey(n)
			case "aesccm":
				return aesccm.GenerateKey(n)
			case "chacha":
				return chacha20poly1305.GenerateKey()
			case "ed25519":
				return ed25519.GenerateKey()
			case "ecdsa":
				return ecdsa.GenerateKey(n)
			case "ecdh":
				return ecdh.GenerateKey(n)
			}
			return nil, fmt.Errorf("family")
		}
		if k1, err = gen(); err != nil {
			return "err"
		}
		k2, _ = gen()
		if cborOf(k1) == cborOf(k2) {
			return "two generated keys are equal"
		}
		if len(k1.Kid()) != 20 {
			return "no default kid"
		}
		var back key.Key
		if key.UnmarshalCBOR(key.MustMarshalCBOR(k1), &back) != nil || cborOf(back) != cborOf(k1) {
			return "generated key does not survive CBOR"
		}
		msg := []byte("conv")
		switch a[0] {
		case "hmac", "aesmac":
			if int(k1.Alg()) != n && n != 0 {
				return "alg not recorded"
			}
			m, err := back.MACer()
			if err != nil {
				return "MACer failed"
			}
			t, err := m.MACCreate(msg)
			if err != nil || m.MACVerify(msg, t) != nil {
				return "MAC round trip failed"
			}
		case "aesgcm", "aesccm", "chacha":
			en, err := back.Encryptor()
			if err != nil {
				return "Encryptor failed"
			}
			nonce := make([]byte, en.NonceSize())
			ct, err := en.Encrypt(nonce, msg, nil)
			if err != nil {
				return "Encrypt failed"
			}
			if pt, err := en.Decrypt(nonce, ct, nil); err != nil || !bytes.Equal(pt, msg) {
				return "AEAD round trip failed"
			}
		case "ed25519", "ecdsa":
			s, err := back.Signer()
			if err != nil {
				return "Signer failed"
			}
			v, err := back.Verifier()
			if err != nil {
				return "Verifier failed"
			}
			sig, err := s.Sign(msg)
			if err != nil || v.Verify(msg, sig) != nil {
				return "signature round trip failed"
			}
			if v.Key().Has(iana.EC2KeyParameterD) {
				return "verifier key holds d"
			}
		case "ecdh":
			e1, err := ecdh.NewECDHer(k1)
			e2, err2 := ecdh.NewECDHer(k2)
			if err != nil || err2 != nil {
				return "NewECDHer failed"
			}
			p1, _ := ecdh.ToPublicKey(k1)
			p2, _ := ecdh.ToPublicKey(k2)
			s1, err := e1.ECDH(p2)
			s2, err2 := e2.ECDH(p1)
			if err != nil || err2 != nil || !bytes.Equal(s1, s2) {
				return "generated keys do not agree"
			}
		}
		return "ok"
	case "conv.recipients":
		// conv.recipients <n>: the recipient bookkeeping — nil, a recipient already placed elsewhere, itself, a third layer
		// are refused with an error (never a panic); what was added is what the accessors report and what goes on the wire
		n, _ := strconv.Atoi(a[0])
		mk := func(i int) *cose.Recipient {
			return &cose.Recipient{Protected: cose.Headers{}, Unprotected: cose.Headers{iana.HeaderParameterAlg: iana.AlgorithmDirect, iana.HeaderParameterKid: []byte{byte(i)}}, Ciphertext: []byte{}}
		}
		mm := &cose.MacMessage[[]byte]{Payload: []byte("p")}
		em := &cose.EncryptMessage[[]byte]{Payload: []byte("p")}
		if mm.AddRecipient(nil) == nil || em.AddRecipient(nil) == nil || mk(0).AddRecipient(nil) == nil {
			return "nil recipient accepted"
		}
		var outer []*cose.Recipient
		for i := 0; i < n; i++ {
			r := mk(i)
			if i%2 == 1 { // a second layer under every other recipient
				inner := mk(100 + i)
				if r.AddRecipient(r) == nil {
					return "a recipient was added to itself"
				}
				if err := r.AddRecipient(inner); err != nil {
					return "second layer refused"
				}
				if inner.AddRecipient(mk(200)) == nil || mk(201).AddRecipient(r) == nil {
					return "third layer accepted (the library's decoder reads two)"
				}
				if len(r.Recipients()) != 1 || r.Recipients()[0] != inner {
					return "Recipient.Recipients() wrong"
				}
			}
			if err := mm.AddRecipient(r); err != nil {
				return "recipient refused"
			}
			if em.AddRecipient(r) == nil {
				return "a recipient placed in one message was accepted by another"
			}
			outer = append(outer, r)
		}
		if len(mm.Recipients()) != n {
			return "MacMessage.Recipients() wrong length"
		}
		for i, r := range outer {
			if mm.Recipients()[i] != r {
				return "MacMessage.Recipients() wrong order"
			}
			b, err := r.MarshalCBOR()
			if err != nil || string(r.Bytesify()) != string(b) {
				return "Recipient.Bytesify differs from MarshalCBOR"
			}
			var back cose.Recipient
			if err := back.UnmarshalCBOR(b); err != nil || len(back.Recipients()) != len(r.Recipients()) {
				return "recipient does not survive CBOR"
			}
		}
		k, _ := hmac.GenerateKey(iana.AlgorithmHMAC_256_64)
		mc, _ := k.MACer()
		data, err := mm.ComputeAndEncode(mc, nil)
		if n == 0 {
			if err == nil {
				return "COSE_Mac without recipients was produced"
			}
			return "ok"
		}
		if err != nil {
			return "ComputeAndEncode failed"
		}
		got, err := cose.VerifyMacMessage[[]byte](mc, data, nil)
		if err != nil || len(got.Recipients()) != n {
			return "COSE_Mac with recipients does not come back"
		}
		for i, r := range got.Recipients() {
			if len(r.Recipients()) != len(outer[i].Recipients()) {
				return "nested recipients lost"
			}
		}
		return "ok"
	case "conv.bigkeyset":
		// conv.bigkeyset <n>: a key set of n symmetric keys (hundreds to thousands: a fleet, a tenant directory) survives
		// CBOR — as many keys come back, each is found under its kid, encodes as it did, and MACs as it did
		n, _ := strconv.Atoi(a[0])
		if n <= 0 || n > 70000 {
			return "bad-op"
		}
		var ks key.KeySet
		for i := 0; i < n; i++ {
			kb := make([]byte, 32)
			for j := range kb {
				kb[j] = byte(i*31 + j*7 + i>>8)
			}
			k, err := hmac.KeyFrom(iana.AlgorithmHMAC_256_64, kb)
			if err != nil {
				return "err key"
			}
			k.SetKid([]byte{'k', byte(i >> 16), byte(i >> 8), byte(i)})
			ks = append(ks, k)
		}
		data, err := key.MarshalCBOR(ks)
		if err != nil {
			return "BIG-KEYSET-NOT-ENCODED " + err.Error()
		}
		var back key.KeySet
		if err := key.UnmarshalCBOR(data, &back); err != nil {
			return "BIG-KEYSET-NOT-DECODED " + err.Error()
		}
		if len(back) != n {
			return fmt.Sprintf("BIG-KEYSET-LENGTH %d of %d", len(back), n)
		}
		for _, i := range []int{0, 1, 23, 24, 255, 256, 257, n / 2, n - 2, n - 1} {
			if i < 0 || i >= n {
				continue
			}
			got := back.Lookup(ks[i].Kid())
			if got == nil || !bytes.Equal(key.MustMarshalCBOR(got), key.MustMarshalCBOR(ks[i])) {
				return fmt.Sprintf("BIG-KEYSET-KEY-%d-LOST", i)
			}
			m1, e1 := ks[i].MACer()
			m2, e2 := got.MACer()
			if e1 != nil || e2 != nil {
				return fmt.Sprintf("BIG-KEYSET-KEY-%d-UNUSABLE", i)
			}
			t1, _ := m1.MACCreate([]byte("fleet"))
			t2, _ := m2.MACCreate([]byte("fleet"))
			if !bytes.Equal(t1, t2) {
				return fmt.Sprintf("BIG-KEYSET-KEY-%d-DIFFERS", i)
			}
		}
		return "ok"
	case "conv.keyset":
		// conv.keyset <n> <kidStyle> <opsStyle>: a key set of n signing keys with distinct kids (the last one without kid):
		// look-ups by kid return exactly the first entry whose kid is byte-equal or nothing, Signers / Verifiers keep order and
		// length whatever the keys' key_ops, the sets convert back, and a COSE_Sign made with ks.Signers() verifies with
		// ks.Verifiers() tagged, untagged and CWT-tagged.
		//   kidStyle 0: binary kids; 1: kids differing in letter case only; 2: kids differing in bytes that are not UTF-8;
		//            3: binary kids, the last three keys without kid
		//   opsStyle 0: no key_ops; 1: [sign, verify]; 2: [sign]; 3: mixed
		n, _ := strconv.Atoi(a[0])
		kidStyle, opsStyle := 0, 0
		if len(a) > 2 {
			kidStyle, _ = strconv.Atoi(a[1])
			opsStyle, _ = strconv.Atoi(a[2])
		}
		kidOf := func(i int) []byte {
			switch kidStyle {
			case 1:
				b := []byte("gateway-key")
				for j := range b {
					if i>>uint(j%5)&1 == 1 && b[j] >= 'a' && b[j] <= 'z' {
						b[j] -= 32
					}
				}
				return b
			case 2:
				return []byte{0xfe - byte(i), 0x10, 0x20}
			}
			return []byte{byte(i), byte(i + 1)}
		}
		var ks key.KeySet
		for i := 0; i < n; i++ {
			var k key.Key
			if i%2 == 0 {
				k, _ = ed25519.GenerateKey()
			} else {
				k, _ = ecdsa.GenerateKey([]int{iana.AlgorithmES256, iana.AlgorithmES384, iana.AlgorithmES512}[i%3])
			}
			k.SetKid(kidOf(i))
			if i == n-1 && (n > 1 || opsStyle%2 == 0) { // (a set of one keeps its kid in half of the cases)
				delete(k, iana.KeyParameterKid)
			}
			if kidStyle == 3 && i >= n-3 { // the last three without kid (compressed public keys never carry one)
				delete(k, iana.KeyParameterKid)
			}
			style := opsStyle
			if opsStyle == 3 {
				style = i % 3
			}
			switch style {
			case 1:
				k.SetOps(iana.KeyOperationSign, iana.KeyOperationVerify)
			case 2:
				k.SetOps(iana.KeyOperationSign)
			}
			ks = append(ks, k)
		}
		ss, err := ks.Signers()
		if err != nil || len(ss) != n {
			return "Signers() wrong length"
		}
		vs, err := ks.Verifiers()
		if err != nil || len(vs) != n {
			return "Verifiers() wrong length"
		}
		// probes: every kid in the set, their case / non-UTF-8 variants, the empty kid, an unknown kid
		probes := [][]byte{nil, {}, {0xff, 0xfe}, []byte("GATEWAY-KEY"), []byte("gateway-keY"), {0xf0, 0x10, 0x20}, {0xff, 0x10, 0x20}, {0x80, 0x10, 0x20}}
		for i := 0; i < n+1; i++ {
			probes = append(probes, kidOf(i), bytes.ToUpper(kidOf(i)), bytes.ToLower(kidOf(i)))
		}
		msg := []byte("conv")
		for _, p := range probes {
			want := -1
			for i, k := range ks {
				if bytes.Equal(k.Kid(), p) {
					want = i
					break
				}
			}
			gotK, gotS, gotV := ks.Lookup(p), ss.Lookup(p), vs.Lookup(p)
			if want < 0 {
				if gotK != nil || gotS != nil || gotV != nil {
					return "Lookup(" + hx(p) + ") returned an entry although no kid is equal"
				}
				continue
			}
			if gotK == nil || gotS == nil || gotV == nil {
				return fmt.Sprintf("Lookup(kid of #%d) is nil", want)
			}
			if cborOf(gotK) != cborOf(ks[want]) || cborOf(gotS.Key()) != cborOf(ss[want].Key()) || cborOf(gotV.Key()) != cborOf(vs[want].Key()) {
				return fmt.Sprintf("Lookup(%s) returned another entry than #%d", hx(p), want)
			}
			sig, err := gotS.Sign(msg)
			if err != nil || gotV.Verify(msg, sig) != nil || vs[want].Verify(msg, sig) != nil {
				return fmt.Sprintf("signer / verifier found for #%d do not belong together", want)
			}
		}
		if len(ss.KeySet()) != n || len(vs.KeySet()) != n {
			return "KeySet() of signers / verifiers wrong length"
		}
		for _, pk := range vs.KeySet() {
			if pk.Has(iana.EC2KeyParameterD) {
				return "verifier key set holds a private key"
			}
		}
		kidless := 0
		for _, k := range ks {
			if len(k.Kid()) == 0 {
				kidless++
			}
		}
		if kidless > 1 { // several signers without kid cannot be told apart by a COSE_Sign verifier: look-ups and sets only
			return "ok"
		}
		// the message level: signed with the set's signers, verified with the set's verifiers
		ext := []byte("ext")
		data, err := (&cose.SignMessage[[]byte]{Payload: []byte("payload")}).SignAndEncode(ss, ext)
		if err != nil {
			return "SignAndEncode with the set's signers failed"
		}
		for _, form := range [][]byte{data, cose.RemoveCBORTag(data), append([]byte{0xd8, 0x3d}, data...)} {
			m, err := cose.VerifySignMessage[[]byte](vs, form, ext)
			if err != nil || !bytes.Equal(m.Payload, []byte("payload")) {
				return "COSE_Sign made with Signers() is not accepted with Verifiers()"
			}
			if _, err := cose.VerifySignMessage[[]byte](vs, form, nil); err == nil {
				return "COSE_Sign accepted under other external data"
			}
		}
		if n > 1 { // and a verifier list that lacks one of the signers does not do
			if _, err := cose.VerifySignMessage[[]byte](vs[1:], data, ext); err == nil && len(ks[0].Kid()) > 0 {
				return "COSE_Sign accepted although one signature has no verifier"
			}
		}
		return "ok"
	}
	return "unknown-op"
}

func genConvOps(r *mrand.Rand, n int) []string {
	var out []string
	for i := 0; i < n; i++ {
		if i%20 == 3 { // fixed slots: key sets beyond the sizes at which CBOR heads (and any decoder limit) change
			out = append(out, fmt.Sprintf("conv.bigkeyset %d", []int{257, 300, 1000, 24, 256, 4097, 65537}[(i/20)%7]))
		}
		switch r.Intn(6) {
		case 5:
			out = append(out, fmt.Sprintf("conv.recipients %d", r.Intn(5)))
		case 0:
			out = append(out, "conv.ed25519 "+hx(randBytes(r, 32)))
		case 1:
			alg := []int{iana.AlgorithmES256, iana.AlgorithmES384, iana.AlgorithmES512}[r.Intn(3)]
			k := genEcScalar(r, alg)
			out = append(out, fmt.Sprintf("conv.ecdsa %d %s", alg, hx(k.d.FillBytes(make([]byte, k.size())))))
		case 2:
			crv := 1 + r.Intn(4)
			a, b := genDhKey(r, crv), genDhKey(r, crv)
			out = append(out, fmt.Sprintf("conv.ecdh %d %s %s", crv, hx(a.d), hx(b.d)))
		case 3:
			fam := []string{"hmac", "aesmac", "aesgcm", "aesccm", "chacha", "ed25519", "ecdsa", "ecdh"}[r.Intn(8)]
			algs := map[string][]int{"hmac": hmacAlgs, "aesmac": aesmacAlgs, "aesgcm": gcmAlgs, "aesccm": ccmAlgs, "chacha": {24}, "ed25519": {-8},
				"ecdsa": {iana.AlgorithmES256, iana.AlgorithmES384, iana.AlgorithmES512}, "ecdh": {1, 2, 3, 4}}[fam]
			out = append(out, fmt.Sprintf("conv.gen %s %d", fam, algs[r.Intn(len(algs))]))
		default:
			out = append(out, fmt.Sprintf("conv.keyset %d %d %d", 1+r.Intn(5), r.Intn(4), r.Intn(4)))
		}
	}
	return out
}
