package main

import (
	"fmt"
	"math/rand"
	"strconv"
	"strings"

	"github.com/ldclabs/cose/cose"
	"github.com/ldclabs/cose/cwt"
	"github.com/ldclabs/cose/iana"
	"github.com/ldclabs/cose/key"
)

func init() {
	subGens["msg:wrongtype"] = genWrongType
	// typed payloads that are plain Go maps, all six kinds: the emitted payload is the deterministic encoding
	subGens["msg:gomap"] = func(r *rand.Rand, n int) []string {
		var out []string
		for i := 0; i < n; i++ {
			kind := kindsAll[r.Intn(len(kindsAll))]
			algs := algsForKind(kind)
			k := genMsgKey(r, algs[r.Intn(len(algs))], false)
			for len(k.kid) == 0 && kind == "sign" {
				k = genMsgKey(r, algs[r.Intn(len(algs))], false)
			}
			p := buildProduce(r, kind, "gomap", genMapTok(r, 1, 2+r.Intn(5)), genHdrTok(r, 2), genHdrTok(r, 2), extTok(r), []msgKey{k})
			out = append(out, p.line)
		}
		return out
	}
}

// spec ops for C08 (strict CBOR in): a byte-string member replaced by an item of another non-null type must be
// rejected; a Go map whose labels collide after encoding must not be emitted with duplicate keys.
func execWrongType(op string, a []string) string {
	switch op {
	case "wire.wrongtype":
		// wire.wrongtype <kind> <hex>
		if reencode(a[0], unhx(a[1])) == "err" {
			return "rejected"
		}
		return "accepted"
	case "wire.badarity":
		// wire.badarity <kind> <hex>: a genuine message of that kind with well-formed members appended to, or the last
		// member dropped from, its outer array (the kinds have a fixed arity: 3, 4 or 5) — or the same inside one of its
		// signature / recipient entries
		if reencode(a[0], unhx(a[1])) == "err" {
			return "rejected"
		}
		return "accepted"
	case "wire.badbucket":
		// wire.badbucket <kind> <hex>: the protected bucket holds something other than exactly one strict map
		if reencode(a[0], unhx(a[1])) == "err" {
			return "rejected"
		}
		return "accepted"
	case "wire.badpayload":
		// wire.badpayload <kind> <mode> <ext> <msg> | <key>: a genuine message (valid signature / tag / ciphertext) whose
		// payload is CBOR the strict decoder must refuse (duplicate keys, indefinite lengths, trailing octets) is consumed
		// with a typed payload destination (CoseMap, or a plain Go map in mode gomap)
		f := splitAll(a)
		h := f[0]
		args := &msgArgs{kind: h[0], mode: h[1], ext: unhxOpt(h[2]), data: unhx(h[3]), fields: f[1:]}
		var ans string
		if args.mode == "gomap" {
			ans = consumeT(goMapCodec, args)
		} else {
			ans = consumeT(typedCodec, args)
		}
		if strings.HasPrefix(ans, "ok") {
			return "accepted " + ans
		}
		return "rejected"
	case "cbor.encdup":
		// every way the library encodes a label map: the generic entry point and each named map type with its own
		// MarshalCBOR, alone and as a member of a wire structure
		v, _ := parseVal(a, 0)
		forms := []any{v}
		if m, ok := v.(key.CoseMap); ok {
			mm := map[any]any(m)
			forms = append(forms, cose.Headers(mm), key.Key(mm), cwt.ClaimsMap(mm), key.CoseMap(mm),
				[]any{cose.Headers(mm)}, &cose.Recipient{Protected: cose.Headers{}, Unprotected: cose.Headers(mm)},
				cose.KDFContext{SuppPubInfo: cose.SuppPubInfo{KeyDataLength: 128, Protected: cose.Headers(mm)}})
		}
		for _, f := range forms {
			out, err := key.MarshalCBOR(f)
			if err != nil {
				continue
			}
			var back any
			if key.UnmarshalCBOR(out, &back) != nil {
				return fmt.Sprintf("emitted-undecodable %T %s", f, hx(out))
			}
		}
		return "no-dup"
	case "wire.msgdup":
		// wire.msgdup <kind> <alg> <keyhex> <bucket p|u> <label token> <value token…>: a message whose header bucket holds a
		// label the library itself also sets (alg 1, kid 4, IV 5), given under another Go integer kind.  Whatever the
		// library emits must be decodable by the library and verify / decrypt under the same key.
		alg, _ := strconv.Atoi(a[1])
		kb := unhx(a[2])
		lab, _ := parseVal(a[4:5], 0)
		val, _ := parseVal(a[5:], 0)
		h := cose.Headers{lab: val}
		prot, unprot := cose.Headers{}, cose.Headers{}
		if a[3] == "p" {
			prot = h
		} else {
			unprot = h
		}
		k := key.Key{iana.KeyParameterKty: iana.KeyTypeSymmetric, iana.KeyParameterAlg: alg, iana.SymmetricKeyParameterK: kb, iana.KeyParameterKid: []byte("k1")}
		switch a[0] {
		case "encrypt0":
			e, err := k.Encryptor()
			if err != nil {
				return "bad-op"
			}
			out, err := (&cose.Encrypt0Message[[]byte]{Protected: prot, Unprotected: unprot, Payload: []byte("p")}).EncryptAndEncode(e, nil)
			if err != nil {
				return "no-dup"
			}
			if _, err := cose.DecryptEncrypt0Message[[]byte](e, out, nil); err != nil {
				return "emitted-unusable " + hx(out)
			}
		case "mac0":
			m, err := k.MACer()
			if err != nil {
				return "bad-op"
			}
			out, err := (&cose.Mac0Message[[]byte]{Protected: prot, Unprotected: unprot, Payload: []byte("p")}).ComputeAndEncode(m, nil)
			if err != nil {
				return "no-dup"
			}
			if _, err := cose.VerifyMac0Message[[]byte](m, out, nil); err != nil {
				return "emitted-unusable " + hx(out)
			}
		default:
			return "bad-op"
		}
		return "no-dup"
	}
	return "unknown-op"
}

func arrayOfInts(b []byte) []byte {
	c := &cnode{mt: 4}
	for _, x := range b {
		c.kids = append(c.kids, &cnode{mt: 0, n: uint64(x)})
	}
	return c.emit(nil, nil, nil)
}

func genWrongType(r *rand.Rand, n int) []string {
	var out []string
	for i := 0; i < n; i++ {
		kind := kindsAll[r.Intn(len(kindsAll))]
		p := genOne(r, kind, false)
		if !p.ok || p.data == nil {
			continue
		}
		_, spans := topMembers(p.data)
		if len(spans) < 3 {
			continue
		}
		// members 0 (protected) and 2 (payload / ciphertext) are byte strings; 3 is signature / tag for the 4-member kinds
		cands := []int{0, 2}
		if kind == "sign1" || kind == "mac0" || kind == "mac" {
			cands = append(cands, 3)
		}
		k := cands[r.Intn(len(cands))]
		member := p.data[spans[k][0]:spans[k][1]]
		if member[0]>>5 != 2 {
			continue
		}
		// content of the byte string
		e := itemEnd(member, 0)
		hl := e - int(headArg(member))
		content := member[hl:e]
		var repl []byte
		switch r.Intn(4) {
		case 0, 1: // array of small integers with the same bytes
			repl = arrayOfInts(content)
		case 2: // text string with the same bytes
			repl = (&cnode{mt: 3, b: []byte("abc")}).emit(nil, nil, nil)
		default: // an integer
			repl = []byte{0x18, 0x2a}
		}
		data := append(append(append([]byte{}, p.data[:spans[k][0]]...), repl...), p.data[spans[k][1]:]...)
		out = append(out, fmt.Sprintf("wire.wrongtype %s %s", kind, hx(data)))
		// the outer array one or two members longer / one member shorter, every kind in turn
		{
			kq := kindsAll[i%len(kindsAll)]
			q := p
			if kq != kind {
				q = genOne(r, kq, false)
			}
			if q.ok && q.data != nil {
				start, sp := topMembers(q.data)
				if start > 0 && len(sp) >= 3 && len(sp) < 20 {
					d := append([]byte{}, q.data...)
					if (i/len(kindsAll))%3 == 2 { // one member fewer
						d = append(append([]byte{}, d[:sp[len(sp)-1][0]]...), d[sp[len(sp)-1][1]:]...)
						d[start-1]--
					} else {
						extra := [][]byte{{0xf6}, {0x80}, {0x40}, {0xa0}, {0x00}, {0x81, 0x83, 0x40, 0xa0, 0x40}}
						nx := 1 + (i/len(kindsAll))%2
						end := sp[len(sp)-1][1]
						tail := append([]byte{}, d[end:]...)
						d = d[:end]
						for j := 0; j < nx; j++ {
							d = append(d, extra[(i+j)%len(extra)]...)
						}
						d = append(d, tail...)
						d[start-1] += byte(nx)
					}
					out = append(out, fmt.Sprintf("wire.badarity %s %s", kq, hx(d)))
				}
			}
		}
		// the protected bucket with content the strict decoder must refuse
		if pm := p.data[spans[0][0]:spans[0][1]]; pm[0]>>5 == 2 {
			pc, _ := bstrContent(pm)
			junk := [][]byte{{0x00}, {0xa0}, {0xa1, 0x01, 0x26}, {0xff}, {0x5f, 0x41, 0x00}, {0xf6}, randBytes(r, 1+r.Intn(4))}[r.Intn(7)]
			var bad []byte
			switch r.Intn(8) {
			case 0, 1: // a valid bucket followed by more octets
				if len(pc) == 0 {
					pc = []byte{0xa0}
				}
				bad = append(append([]byte{}, pc...), junk...)
			case 2, 3: // the empty map followed by more octets
				bad = append([]byte{0xa0}, junk...)
			case 4: // indefinite-length map
				bad = []byte{0xbf, 0x01, 0x26, 0xff}
			case 5: // duplicate label
				bad = []byte{0xa2, 0x01, 0x26, 0x01, 0x26}
			case 6: // not a map
				bad = [][]byte{{0x01}, {0x80}, {0x61, 0x61}, {0x40}, {0xf5}}[r.Intn(5)]
			default: // label of a type / range the library refuses
				bad = [][]byte{{0xa1, 0x41, 0x01, 0x00}, {0xa1, 0x1b, 0xff, 0xff, 0xff, 0xff, 0xff, 0xff, 0xff, 0xff, 0x00}, {0xa1, 0xf5, 0x00}, {0xa1, 0x3a, 0x80, 0x00, 0x00, 0x00, 0x00}}[r.Intn(4)]
			}
			out = append(out, fmt.Sprintf("wire.badbucket %s %s", kind, hx(replaceSpan(p.data, spans[0], bstrItem(bad)))))
		}
		if i%5 == 0 {
			out = append(out, genMsgDup(r))
		}
		if i%10 == 0 {
			out = append(out, "cbor.encdup { int:1 int:7 i64:1 int:8 }", "cbor.encdup { u8:3 t:61 i16:3 t:62 int:3 t:63 }")
		}
		if i%4 == 0 { // one label under two Go integer kinds (any pair), small or beyond 32 bits
			kinds := []string{"int", "i8", "i16", "i32", "i64", "u", "u8", "u16", "u32", "u64"}
			v := []int64{4, 24, 100, 1, 0, 1 << 40, 1<<31 + 5, 127}[r.Intn(8)]
			var ok []string
			for _, k := range kinds {
				if (k == "i8" || k == "u8") && v > 127 || (k == "i16" || k == "u16") && v > 32767 || (k == "i32" || k == "u32" || k == "int") && v > 1<<31-1 && k != "int" {
					continue
				}
				ok = append(ok, k)
			}
			a, b := ok[r.Intn(len(ok))], ok[r.Intn(len(ok))]
			if a != b {
				out = append(out, fmt.Sprintf("cbor.encdup { %s:%d t:61 %s:%d t:62 }", a, v, b, v))
			}
		}
		if i%3 == 0 { // a valid message around a payload that is not strict CBOR, consumed into typed destinations
			bad := [][]byte{
				{0xa2, 0x01, 0x61, 0x61, 0x01, 0x61, 0x62},       // duplicate key 1
				{0xa2, 0x01, 0x61, 0x61, 0x18, 0x01, 0x61, 0x62}, // 1 and the non-shortest 1
				{0xbf, 0x01, 0x61, 0x61, 0xff},                   // indefinite-length map
				{0xa1, 0x01, 0x7f, 0x61, 0x61, 0xff},             // indefinite-length text
				{0xa1, 0x01, 0x61, 0x61, 0x00},                   // trailing octet
				{0xa1, 0x01},                                     // truncated
				{0xa2, 0x61, 0x61, 0x01, 0x61, 0x61, 0x02},       // duplicate text key
			}[r.Intn(7)]
			algs := algsForKind(kind)
			k := genMsgKey(r, algs[r.Intn(len(algs))], false)
			for len(k.kid) == 0 && kind == "sign" {
				k = genMsgKey(r, algs[r.Intn(len(algs))], false)
			}
			q := buildProduce(r, kind, "rawmsg", hx(bad), "nil", "nil", extTok(r), []msgKey{k})
			if q.ok && q.data != nil {
				mode := []string{"typed", "gomap"}[r.Intn(2)]
				out = append(out, fmt.Sprintf("wire.badpayload %s %s %s %s | %s", kind, mode, q.ext, hx(q.data), strings.Join(q.pubKeys(), " | ")))
			}
		}
	}
	return out
}

// headArg returns the argument (length) of a definite-length string head
func headArg(b []byte) uint64 {
	ai := b[0] & 0x1f
	switch {
	case ai < 24:
		return uint64(ai)
	case ai == 24:
		return uint64(b[1])
	case ai == 25:
		return uint64(b[1])<<8 | uint64(b[2])
	case ai == 26:
		return uint64(b[1])<<24 | uint64(b[2])<<16 | uint64(b[3])<<8 | uint64(b[4])
	}
	return 0
}

// a header label the library sets itself, supplied by the caller under another Go integer kind
func genMsgDup(r *rand.Rand) string {
	kind := []string{"encrypt0", "mac0"}[r.Intn(2)]
	algs := algsForKind(kind)
	alg := algs[r.Intn(len(algs))]
	kb := randBytes(r, keySizeOf(alg))
	ik := []string{"i8", "i16", "i32", "i64", "u", "u8", "u16", "u32", "u64", "int"}[r.Intn(10)]
	switch r.Intn(3) {
	case 0: // alg, protected
		return fmt.Sprintf("wire.msgdup %s %d %s p %s:1 int:%d", kind, alg, hx(kb), ik, alg)
	case 1: // kid, unprotected
		return fmt.Sprintf("wire.msgdup %s %d %s u %s:4 b:6b31", kind, alg, hx(kb), ik)
	default: // IV, unprotected
		ns := 12
		if kind == "encrypt0" {
			ns = nonceSizeOf(alg)
		}
		return fmt.Sprintf("wire.msgdup %s %d %s u %s:5 b:%s", kind, alg, hx(kb), ik, hx(randBytes(r, ns)))
	}
}
