package main

import (
	"encoding/binary"
	"math/rand"
)

// An independent mini CBOR writer with deliberate malformations, used to build inputs for the decoders.
// (It does not use fxamacker, so the encodings it produces are a second opinion.)

type cnode struct {
	mt   int      // major type 0..7
	n    uint64   // argument (uint/nint value, tag number, simple value)
	b    []byte   // bstr / tstr content
	kids []*cnode // arr elements, map k,v,k,v…, tag content
	raw  []byte   // if set, emitted verbatim (floats, injected garbage)
}

type emitOpts struct {
	nonShortest float64 // probability that a head uses a longer form than needed
	indef       float64 // probability that a string/array/map is emitted with indefinite length
	shuffle     bool    // do not sort map keys
}

func appendHead(out []byte, r *rand.Rand, mt int, n uint64, o *emitOpts) []byte {
	width := 0
	switch {
	case n < 24:
		width = 0
	case n < 1<<8:
		width = 1
	case n < 1<<16:
		width = 2
	case n < 1<<32:
		width = 4
	default:
		width = 8
	}
	if o != nil && r.Float64() < o.nonShortest {
		ws := []int{1, 2, 4, 8}
		for {
			w := ws[r.Intn(4)]
			if w >= width && w > 0 {
				width = w
				break
			}
		}
	}
	m := byte(mt << 5)
	switch width {
	case 0:
		return append(out, m|byte(n))
	case 1:
		return append(out, m|24, byte(n))
	case 2:
		return binary.BigEndian.AppendUint16(append(out, m|25), uint16(n))
	case 4:
		return binary.BigEndian.AppendUint32(append(out, m|26), uint32(n))
	default:
		return binary.BigEndian.AppendUint64(append(out, m|27), n)
	}
}

func (c *cnode) emit(out []byte, r *rand.Rand, o *emitOpts) []byte {
	if c.raw != nil {
		return append(out, c.raw...)
	}
	switch c.mt {
	case 0, 1:
		return appendHead(out, r, c.mt, c.n, o)
	case 2, 3:
		if o != nil && r.Float64() < o.indef {
			out = append(out, byte(c.mt<<5)|31)
			out = appendHead(out, r, c.mt, uint64(len(c.b)), o)
			out = append(out, c.b...)
			return append(out, 0xff)
		}
		out = appendHead(out, r, c.mt, uint64(len(c.b)), o)
		return append(out, c.b...)
	case 4:
		if o != nil && r.Float64() < o.indef {
			out = append(out, 0x9f)
			for _, k := range c.kids {
				out = k.emit(out, r, o)
			}
			return append(out, 0xff)
		}
		out = appendHead(out, r, 4, uint64(len(c.kids)), o)
		for _, k := range c.kids {
			out = k.emit(out, r, o)
		}
		return out
	case 5:
		if o != nil && r.Float64() < o.indef {
			out = append(out, 0xbf)
			for _, k := range c.kids {
				out = k.emit(out, r, o)
			}
			return append(out, 0xff)
		}
		out = appendHead(out, r, 5, uint64(len(c.kids)/2), o)
		for _, k := range c.kids {
			out = k.emit(out, r, o)
		}
		return out
	case 6:
		out = appendHead(out, r, 6, c.n, o)
		return c.kids[0].emit(out, r, o)
	default:
		return appendHead(out, r, 7, c.n, o)
	}
}

var boundaryUints = []uint64{0, 1, 10, 23, 24, 25, 100, 255, 256, 257, 1000, 65535, 65536, 65537, 1 << 31, 1<<31 - 1, 1<<32 - 1, 1 << 32, 1<<32 + 1, 1<<63 - 1, 1 << 63, 1<<64 - 1,
	// values that become small (or in-range) numbers after a 64-bit wrap: 2^64-k
	1<<64 - 2, 1<<64 - 7, 1<<64 - 8, 1<<64 - 25, 1<<64 - 36, 1<<64 - (1 << 31), 1<<64 - (1 << 31) - 1, 1<<64 - (1 << 31) + 1, 1<<63 + 5, 1<<32 + 5, 1<<32 - 7}

func genUint(r *rand.Rand) uint64 {
	switch r.Intn(3) {
	case 0:
		return uint64(r.Intn(30))
	case 1:
		return boundaryUints[r.Intn(len(boundaryUints))]
	default:
		return r.Uint64() >> uint(r.Intn(64))
	}
}

var textSamples = [][]byte{[]byte(""), []byte("a"), []byte("alg"), []byte("kid"), []byte("héllo"), []byte("日本"), []byte("x-custom-label"), {0xf0, 0x9f, 0x98, 0x80}}
var badText = [][]byte{{0xff}, {0xc0, 0x80}, {0xed, 0xa0, 0x80}, {0xe2, 0x82}, {0xf5, 0x80, 0x80, 0x80}, {0x80}}

func randBytes(r *rand.Rand, n int) []byte {
	b := make([]byte, n)
	r.Read(b)
	return b
}

var lenClasses = []int{0, 1, 2, 23, 24, 25, 255, 256, 257}

// genTree builds a random data item; `exotic` admits tags, floats, odd simple values, odd keys.
func genTree(r *rand.Rand, depth int, exotic bool) *cnode {
	k := r.Intn(12)
	if depth <= 0 && k >= 6 {
		k = r.Intn(6)
	}
	switch k {
	case 0, 1:
		return &cnode{mt: 0, n: genUint(r)}
	case 2:
		return &cnode{mt: 1, n: genUint(r)}
	case 3:
		n := lenClasses[r.Intn(len(lenClasses))]
		if r.Intn(3) == 0 {
			n = r.Intn(40)
		}
		return &cnode{mt: 2, b: randBytes(r, n)}
	case 4:
		if exotic && r.Intn(8) == 0 {
			return &cnode{mt: 3, b: badText[r.Intn(len(badText))]}
		}
		return &cnode{mt: 3, b: textSamples[r.Intn(len(textSamples))]}
	case 5:
		vals := []uint64{20, 21, 22, 23}
		if exotic && r.Intn(4) == 0 {
			vals = []uint64{0, 19, 24, 31, 32, 255}
		}
		return &cnode{mt: 7, n: vals[r.Intn(len(vals))]}
	case 6, 7:
		n := r.Intn(5)
		if r.Intn(10) == 0 {
			n = 23 + r.Intn(4)
		}
		c := &cnode{mt: 4}
		for i := 0; i < n; i++ {
			c.kids = append(c.kids, genTree(r, depth-1, exotic))
		}
		return c
	case 8, 9, 10:
		n := r.Intn(6)
		if r.Intn(10) == 0 {
			n = 23 + r.Intn(4)
		}
		c := &cnode{mt: 5}
		seen := map[string]bool{}
		for i := 0; i < n; i++ {
			var key *cnode
			switch r.Intn(10) {
			case 0, 1, 2, 3:
				key = &cnode{mt: 0, n: genUint(r)}
			case 4, 5:
				key = &cnode{mt: 1, n: genUint(r)}
			case 6, 7, 8:
				key = &cnode{mt: 3, b: textSamples[r.Intn(len(textSamples))]}
			default:
				if exotic {
					key = genTree(r, 1, true)
				} else {
					key = &cnode{mt: 0, n: uint64(r.Intn(1000))}
				}
			}
			id := string(key.emit(nil, r, nil))
			if seen[id] {
				continue
			}
			seen[id] = true
			c.kids = append(c.kids, key, genTree(r, depth-1, exotic))
		}
		return c
	default:
		if !exotic {
			return &cnode{mt: 0, n: genUint(r)}
		}
		switch r.Intn(3) {
		case 0:
			tags := []uint64{0, 1, 2, 3, 16, 17, 18, 61, 96, 97, 98, 24, 55799, 1 << 40}
			return &cnode{mt: 6, n: tags[r.Intn(len(tags))], kids: []*cnode{genTree(r, depth-1, exotic)}}
		case 1:
			f := [][]byte{{0xf9, 0x3c, 0x00}, {0xfa, 0x3f, 0x80, 0x00, 0x00}, {0xfb, 0x3f, 0xf0, 0, 0, 0, 0, 0, 0}, {0xf9, 0x7e, 0x00}}
			return &cnode{raw: f[r.Intn(len(f))]}
		default:
			return &cnode{mt: 1, n: 1<<63 + uint64(r.Intn(5))}
		}
	}
}

// canonical-order emission of a map's children is the caller's business; sortKids sorts k/v pairs bytewise by key encoding.
func (c *cnode) sortKids(r *rand.Rand) {
	for _, k := range c.kids {
		k.sortKids(r)
	}
	if c.mt != 5 {
		return
	}
	n := len(c.kids) / 2
	type kv struct {
		k, v *cnode
		e    string
	}
	kvs := make([]kv, n)
	for i := 0; i < n; i++ {
		kvs[i] = kv{c.kids[2*i], c.kids[2*i+1], string(c.kids[2*i].emit(nil, r, nil))}
	}
	for i := 1; i < n; i++ {
		for j := i; j > 0 && kvs[j].e < kvs[j-1].e; j-- {
			kvs[j], kvs[j-1] = kvs[j-1], kvs[j]
		}
	}
	for i := 0; i < n; i++ {
		c.kids[2*i], c.kids[2*i+1] = kvs[i].k, kvs[i].v
	}
}

// mutate applies one grammar-blind or grammar-aware malformation to an encoding.
func mutateBytes(r *rand.Rand, b []byte) []byte {
	out := append([]byte{}, b...)
	switch r.Intn(7) {
	case 0: // truncate
		if len(out) > 0 {
			out = out[:r.Intn(len(out))]
		}
	case 1: // trailing bytes
		out = append(out, randBytes(r, 1+r.Intn(3))...)
	case 2: // bit flip
		if len(out) > 0 {
			i := r.Intn(len(out))
			out[i] ^= 1 << uint(r.Intn(8))
		}
	case 3: // byte replace with an interesting head
		if len(out) > 0 {
			heads := []byte{0x1f, 0x3f, 0x5f, 0x7f, 0x9f, 0xbf, 0xdf, 0xff, 0x1c, 0x1d, 0x1e, 0xf8, 0xf6, 0xa1, 0x81, 0x9b, 0xbb, 0x5b}
			out[r.Intn(len(out))] = heads[r.Intn(len(heads))]
		}
	case 4: // insert a byte
		i := r.Intn(len(out) + 1)
		out = append(out[:i], append([]byte{byte(r.Intn(256))}, out[i:]...)...)
	case 5: // delete a byte
		if len(out) > 0 {
			i := r.Intn(len(out))
			out = append(out[:i], out[i+1:]...)
		}
	case 6: // huge declared length
		if len(out) > 0 {
			i := r.Intn(len(out))
			mt := out[i] & 0xe0
			out = append(out[:i], append([]byte{mt | 27, 0x7f, 0xff, 0xff, 0xff, 0xff, 0xff, 0xff, 0xff}, out[i+1:]...)...)
		}
	}
	return out
}
