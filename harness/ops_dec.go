package main

import (
	"encoding/base64"
	"encoding/hex"
	"fmt"
	"math/rand"
	"strconv"
	"strings"

	"github.com/ldclabs/cose/cose"
	"github.com/ldclabs/cose/cwt"
	"github.com/ldclabs/cose/key"
)

func init() {
	register(&family{name: "kdf", gen: genKdfOps, exec: execDec})
	register(&family{name: "claims", gen: genClaimsOps, exec: execDec})
	register(&family{name: "dec", gen: genDecOps, exec: execDec})
	propFamilies["C04"] = append(propFamilies["C04"], "kdf")
	propFamilies["C09"] = append(propFamilies["C09"], "kdf", "claims", "dec")
	propFamilies["C07"] = []string{"dec", "kdf", "claims", "msg:C02", "msg:C03", "msg:C04", "map", "cbor", "key", "impl", "sig", "ecdh", "prim:mac", "prim:aead", "prim:kdf", "cwt"}
}

func execDec(op string, a []string) string {
	switch op {
	case "kdf.enc":
		// kdf.enc <alg> <uid> <unonce> <uother> <vid> <vnonce> <vother> <kdl> <other> <priv> | <prot…>
		f, prot := splitBar(a)
		alg, _ := strconv.Atoi(f[0])
		kdl, _ := strconv.ParseUint(f[7], 10, 64)
		c := cose.KDFContext{
			AlgorithmID:  alg,
			PartyUInfo:   cose.PartyInfo{Identity: unhxOpt(f[1]), Nonce: unhxOpt(f[2]), Other: unhxOpt(f[3])},
			PartyVInfo:   cose.PartyInfo{Identity: unhxOpt(f[4]), Nonce: unhxOpt(f[5]), Other: unhxOpt(f[6])},
			SuppPubInfo:  cose.SuppPubInfo{KeyDataLength: uint(kdl), Protected: hdrFromToks(prot), Other: unhxOpt(f[8])},
			SuppPrivInfo: unhxOpt(f[9]),
		}
		b, err := key.MarshalCBOR(c)
		if err != nil {
			return "err"
		}
		// value round trip on the library: decode what was encoded and encode again
		var back cose.KDFContext
		if err := key.UnmarshalCBOR(b, &back); err != nil {
			return "ok " + hx(b) + " ROUNDTRIP-DECODE-FAILED"
		}
		b2, _ := key.MarshalCBOR(back)
		if string(b2) != string(b) {
			return "ok " + hx(b) + " ROUNDTRIP-CHANGED " + hx(b2)
		}
		return "ok " + hx(b)
	case "kdf.dec":
		var c cose.KDFContext
		if err := key.UnmarshalCBOR(unhx(a[0]), &c); err != nil {
			return "err"
		}
		b, err := key.MarshalCBOR(c)
		if err != nil {
			return "err-reencode"
		}
		return "ok " + hx(b)
	case "claims.enc":
		// claims.enc <iss> <sub> <aud> <exp> <nbf> <iat> <cti>   (strings / cti in hex, `-` empty)
		exp, _ := strconv.ParseUint(a[3], 10, 64)
		nbf, _ := strconv.ParseUint(a[4], 10, 64)
		iat, _ := strconv.ParseUint(a[5], 10, 64)
		c := cwt.Claims{Issuer: string(unhx(a[0])), Subject: string(unhx(a[1])), Audience: string(unhx(a[2])),
			Expiration: exp, NotBefore: nbf, IssuedAt: iat, CWTID: unhxOpt(a[6])}
		b, err := key.MarshalCBOR(&c)
		if err != nil {
			return "err"
		}
		if string(c.Bytesify()) != string(b) {
			return "ok " + hx(b) + " BYTESIFY-DIFFERS"
		}
		// struct and map forms agree; decoding gives the value back
		var cm cwt.ClaimsMap
		if err := key.UnmarshalCBOR(b, &cm); err != nil {
			return "ok " + hx(b) + " MAP-DECODE-FAILED"
		}
		if b2, _ := cm.MarshalCBOR(); string(b2) != string(b) {
			return "ok " + hx(b) + " MAP-FORM-DIFFERS " + hx(b2)
		}
		var back cwt.Claims
		if err := key.UnmarshalCBOR(b, &back); err != nil {
			return "ok " + hx(b) + " ROUNDTRIP-DECODE-FAILED"
		}
		if fmt.Sprintf("%v", back) != fmt.Sprintf("%v", c) && !(len(c.CWTID) == 0 && len(back.CWTID) == 0 &&
			back.Issuer == c.Issuer && back.Subject == c.Subject && back.Audience == c.Audience && back.Expiration == c.Expiration &&
			back.NotBefore == c.NotBefore && back.IssuedAt == c.IssuedAt) {
			return "ok " + hx(b) + " ROUNDTRIP-CHANGED"
		}
		return "ok " + hx(b)
	case "claims.dec":
		var c cwt.Claims
		if err := key.UnmarshalCBOR(unhx(a[0]), &c); err != nil {
			return "err"
		}
		b, err := key.MarshalCBOR(&c)
		if err != nil {
			return "err-reencode"
		}
		return "ok " + hx(b)
	case "dec.keyset":
		var ks key.KeySet
		if err := key.UnmarshalCBOR(unhx(a[0]), &ks); err != nil {
			return "err"
		}
		b, err := key.MarshalCBOR(ks)
		if err != nil {
			return "err-reencode"
		}
		return "ok " + hx(b)
	case "dec.recipient":
		var rc cose.Recipient
		if err := rc.UnmarshalCBOR(unhx(a[0])); err != nil {
			return "err"
		}
		b, err := rc.MarshalCBOR()
		if err != nil {
			return "err-reencode"
		}
		return "ok " + hx(b)
	case "dec.bytestr":
		// ByteStr text and JSON codecs: decode(encode(b)) == b
		b := key.ByteStr(unhxOpt(a[0]))
		t, _ := b.MarshalText()
		j, _ := b.MarshalJSON()
		var b1, b2 key.ByteStr
		if err := b1.UnmarshalText(t); err != nil || string(b1) != string(b) {
			return "TEXT-ROUNDTRIP-CHANGED"
		}
		if err := b2.UnmarshalJSON(j); err != nil || string(b2) != string(b) {
			return "JSON-ROUNDTRIP-CHANGED"
		}
		// destinations that held something before: a longer value, a shorter one, a trimmed buffer with spare capacity
		for _, prev := range []key.ByteStr{
			append(append(key.ByteStr{}, b...), 3, 4, 5, 6, 7, 8),
			{9},
			make(key.ByteStr, 0, len(b)+8),
			make(key.ByteStr, len(b)/2, len(b)+1),
		} {
			d1, d2 := append(key.ByteStr{}, prev...), append(make(key.ByteStr, 0, cap(prev)), prev...)
			if err := d1.UnmarshalText(t); err != nil || string(d1) != string(b) {
				return "TEXT-ROUNDTRIP-CHANGED-REUSED-DESTINATION"
			}
			if err := d2.UnmarshalJSON(j); err != nil || string(d2) != string(b) {
				return "JSON-ROUNDTRIP-CHANGED-REUSED-DESTINATION"
			}
		}
		// the helper forms of the same octets: hex and base64url (padded or not) back to the bytes, malformed text to nil
		if string(key.HexBytesify(b.String())) != string(b) || string(key.Base64Bytesify(b.Base64())) != string(b) ||
			string(key.Base64Bytesify(base64.URLEncoding.EncodeToString(b))) != string(b) {
			return "HELPER-ROUNDTRIP-CHANGED"
		}
		if key.HexBytesify(b.String()+"0") != nil || key.HexBytesify("zz") != nil || key.Base64Bytesify(b.Base64()+"*") != nil {
			return "HELPER-ACCEPTS-MALFORMED-TEXT"
		}
		return "ok " + string(t)
	case "dec.bytestrjson", "dec.bytestrtext":
		// the text / JSON decoders of ByteStr called directly with arbitrary octets (encoding/json would pre-validate):
		// hex between quotes (JSON; `null` leaves the value alone) or bare hex (text); anything else is an error
		in := unhx(a[0])
		var b key.ByteStr = key.ByteStr{0xee}
		var err error
		if op == "dec.bytestrjson" {
			err = b.UnmarshalJSON(in)
			// the label-map types hand the same octets to the same decoder first: no panic there either
			var cm key.CoseMap
			var kk key.Key
			cm.UnmarshalJSON(in)
			kk.UnmarshalJSON(in)
		} else {
			err = b.UnmarshalText(in)
			var cm key.CoseMap
			cm.UnmarshalText(in)
		}
		if err != nil {
			return "err"
		}
		if len(b) == 1 && b[0] == 0xee && string(in) == "null" {
			return "ok null"
		}
		return "ok " + hx(b)
	case "dec.keyjson":
		// a key survives the JSON and text forms (hex of its CBOR encoding)
		k := keyFromToks(a)
		j, err := k.MarshalJSON()
		if err != nil {
			return "err"
		}
		var k2, k3 key.Key
		if err := k2.UnmarshalJSON(j); err != nil {
			return "JSON-DECODE-FAILED"
		}
		t, _ := k.MarshalText()
		if err := k3.UnmarshalText(t); err != nil {
			return "TEXT-DECODE-FAILED"
		}
		c1, _ := k.MarshalCBOR()
		c2, _ := k2.MarshalCBOR()
		c3, _ := k3.MarshalCBOR()
		if string(c1) != string(c2) || string(c1) != string(c3) {
			return "ROUNDTRIP-CHANGED"
		}
		// decoding into variables that held another key before
		k4 := key.Key{1: 4, -1: []byte{1, 2, 3}, -4: []byte{4}, 4: []any{uint64(10)}, 5: []byte{7}}
		k5 := key.Key{1: 4, -1: []byte{1, 2, 3}, -4: []byte{4}, 4: []any{uint64(10)}, 5: []byte{7}}
		k6 := key.Key{1: 4, -1: []byte{1, 2, 3}, -4: []byte{4}, 4: []any{uint64(10)}, 5: []byte{7}}
		if k4.UnmarshalJSON(j) != nil || k5.UnmarshalText(t) != nil || key.UnmarshalCBOR(c1, &k6) != nil {
			return "REUSED-DESTINATION-DECODE-FAILED"
		}
		c4, _ := k4.MarshalCBOR()
		c5, _ := k5.MarshalCBOR()
		c6, _ := k6.MarshalCBOR()
		if string(c1) != string(c4) || string(c1) != string(c5) || string(c1) != string(c6) {
			return "ROUNDTRIP-CHANGED-REUSED-DESTINATION"
		}
		return "ok " + hx(c1)
	}
	return "unknown-op"
}

func optBytes(r *rand.Rand) string {
	switch r.Intn(4) {
	case 0:
		return "~"
	case 1:
		return "-"
	default:
		return hx(randBytes(r, 1+r.Intn(20)))
	}
}

var kdfMemberSeq int

func genKdfOps(r *rand.Rand, n int) []string {
	var out []string
	for i := 0; i < n; i++ {
		alg := []int{-25, -26, -27, -28, 1, 3, -3, 0, 24, 256, -65537, 1 << 40}[r.Intn(12)]
		kdl := []uint64{128, 256, 0, 1, 23, 24, 255, 65536, 1<<32 + 1}[r.Intn(9)]
		prot := genHdrTok(r, 2)
		line := fmt.Sprintf("kdf.enc %d %s %s %s %s %s %s %d %s %s | %s", alg, optBytes(r), optBytes(r), optBytes(r), optBytes(r), optBytes(r), optBytes(r), kdl, optBytes(r), optBytes(r), prot)
		out = append(out, line)
		// decode: what the library encodes, foreign re-encodings and malformations
		ans := execLine(line)
		if strings.HasPrefix(ans, "ok ") {
			b := unhx(strings.Fields(ans)[1])
			out = append(out, "kdf.dec "+hx(b))
			for j := 0; j < 2; j++ {
				out = append(out, "kdf.dec "+hx(mutateBytes(r, b)))
			}
		}
		// a foreign KDF context from the mini encoder
		pi := func() *cnode {
			mk := func() *cnode {
				kdfMemberSeq++
				if kdfMemberSeq%11 == 4 { // fixed slots, every member position in turn: a member that is neither a byte string nor null
					odd := [][]byte{{0x61, 0x6e}, {0xa0}, {0xf5}, {0xf9, 0x3c, 0x00}, {0x07}, {0x20}, {0xa1, 0x01, 0x02}, {0xf4}, {0x60}, {0xfb, 0x3f, 0xf0, 0, 0, 0, 0, 0, 0}}
					return &cnode{raw: odd[(kdfMemberSeq/11)%len(odd)]}
				}
				if r.Intn(3) == 0 {
					return &cnode{mt: 7, n: 22}
				}
				return &cnode{mt: 2, b: randBytes(r, r.Intn(6))}
			}
			c := &cnode{mt: 4, kids: []*cnode{mk(), mk(), mk()}}
			if r.Intn(12) == 0 {
				c.kids = c.kids[:2]
			}
			return c
		}
		sp := &cnode{mt: 4, kids: []*cnode{{mt: 0, n: genUint(r)}, {mt: 2, b: foreignBucket(r, -6, r.Intn(2) == 0)}}}
		if r.Intn(2) == 0 {
			sp.kids = append(sp.kids, &cnode{mt: 2, b: randBytes(r, r.Intn(5))})
		}
		algNode := intNode(int64(alg))
		if r.Intn(10) == 0 { // odd-typed integer members: simple values, booleans, null, negative, float, text
			odd := [][]byte{{0xf0}, {0xf8, 0x80}, {0xf8, 0xff}, {0xf4}, {0xf5}, {0xf6}, {0xf7}, {0xe5}, {0x20}, {0xf9, 0x3c, 0x00}, {0x61, 0x31}, {0x41, 0x01}, {0xc2, 0x41, 0x05}}
			if r.Intn(2) == 0 {
				sp.kids[0] = &cnode{raw: odd[r.Intn(len(odd))]}
			} else {
				algNode = &cnode{raw: odd[r.Intn(len(odd))]}
			}
		}
		top := &cnode{mt: 4, kids: []*cnode{algNode, pi(), pi(), sp}}
		if r.Intn(2) == 0 {
			top.kids = append(top.kids, &cnode{mt: 2, b: randBytes(r, r.Intn(5))})
		}
		var o *emitOpts
		if r.Intn(3) == 0 {
			o = &emitOpts{nonShortest: 0.2}
		}
		out = append(out, "kdf.dec "+hx(top.emit(nil, r, o)))
	}
	return out
}

func genClaimsOps(r *rand.Rand, n int) []string {
	var out []string
	strs := []string{"-", "697373", "e697a5", "75726e3a78", "61"}
	for i := 0; i < n; i++ {
		num := func() uint64 {
			switch r.Intn(4) {
			case 0:
				return 0
			case 1:
				return uint64(1700000000 + r.Intn(100000))
			default:
				return genUint(r)
			}
		}
		line := fmt.Sprintf("claims.enc %s %s %s %d %d %d %s", strs[r.Intn(len(strs))], strs[r.Intn(len(strs))], strs[r.Intn(len(strs))], num(), num(), num(), optBytes(r))
		out = append(out, line)
		ans := execLine(line)
		if strings.HasPrefix(ans, "ok ") {
			b := unhx(strings.Fields(ans)[1])
			out = append(out, "claims.dec "+hx(b), "claims.dec "+hx(mutateBytes(r, b)))
		}
		// foreign claim sets: other labels, wrong types, non-canonical encodings
		m := &cnode{mt: 5}
		seen := map[string]bool{}
		for j := r.Intn(6); j > 0; j-- {
			var k *cnode
			switch r.Intn(5) {
			case 0, 1, 2:
				k = &cnode{mt: 0, n: uint64(1 + r.Intn(8))}
			case 3:
				k = &cnode{mt: 3, b: []byte("x")}
			default:
				k = intNode(int64(r.Intn(600) - 300))
			}
			id := string(k.emit(nil, r, nil))
			if seen[id] {
				continue
			}
			seen[id] = true
			var v *cnode
			switch r.Intn(6) {
			case 0, 1:
				v = &cnode{mt: 3, b: textSamples[r.Intn(len(textSamples))]}
			case 2, 3:
				v = &cnode{mt: 0, n: genUint(r)}
				if r.Intn(6) == 0 { // simple values / booleans / null where an integer is expected
					v = &cnode{raw: [][]byte{{0xf0}, {0xf8, 0x80}, {0xf8, 0xff}, {0xf4}, {0xf5}, {0xf6}, {0xf7}, {0xe5}, {0x20}}[r.Intn(9)]}
				}
			case 4:
				v = &cnode{mt: 2, b: randBytes(r, r.Intn(6))}
			default:
				v = genTree(r, 1, r.Intn(4) == 0)
			}
			m.kids = append(m.kids, k, v)
		}
		var o *emitOpts
		if r.Intn(3) == 0 {
			o = &emitOpts{nonShortest: 0.3}
		}
		out = append(out, "claims.dec "+hx(m.emit(nil, r, o)))
	}
	return out
}

func genDecOps(r *rand.Rand, n int) []string {
	var out []string
	for i := 0; i < n; i++ {
		// key sets: arrays of key maps
		ks := &cnode{mt: 4}
		for j := r.Intn(4); j > 0; j-- {
			m := &cnode{mt: 5}
			m.kids = append(m.kids, &cnode{mt: 0, n: 1}, &cnode{mt: 0, n: uint64(1 + r.Intn(4))})
			if r.Intn(2) == 0 {
				m.kids = append(m.kids, &cnode{mt: 0, n: 2}, &cnode{mt: 2, b: randBytes(r, r.Intn(5))})
			}
			if r.Intn(2) == 0 {
				m.kids = append(m.kids, &cnode{mt: 1, n: 0}, genTree(r, 1, false))
			}
			if r.Intn(10) == 0 {
				ks.kids = append(ks.kids, genTree(r, 1, true))
			}
			ks.kids = append(ks.kids, m)
		}
		b := ks.emit(nil, r, nil)
		if r.Intn(5) == 0 {
			b = mutateBytes(r, b)
		}
		out = append(out, "dec.keyset "+hx(b))
		if i%5 == 2 {
			// fixed slots: a key whose members sit under *text* labels that print like the registered integer labels
			// ("1", "3", "-1", "2") — alone, or next to the integer label of the same print: text labels stay text
			tl := func(s string) *cnode { return &cnode{mt: 3, b: []byte(s)} }
			tk := &cnode{mt: 5, kids: []*cnode{tl("1"), {mt: 0, n: 4}, tl("2"), {mt: 2, b: randBytes(r, 3)}, tl("3"), {mt: 0, n: 5}, tl("-1"), {mt: 2, b: randBytes(r, 32)}}}
			switch (i / 5) % 3 {
			case 1: // both 3 and "3"
				tk = &cnode{mt: 5, kids: []*cnode{{mt: 0, n: 1}, {mt: 0, n: 4}, {mt: 0, n: 3}, {mt: 0, n: 4}, tl("3"), {mt: 0, n: 5}, {mt: 1, n: 0}, {mt: 2, b: randBytes(r, 32)}}}
			case 2: // "01", "+1", " 1": never numbers
				tk = &cnode{mt: 5, kids: []*cnode{tl("01"), {mt: 0, n: 4}, tl("+3"), {mt: 0, n: 5}, tl(" 1"), {mt: 0, n: 1}, tl("1e0"), {mt: 0, n: 2}}}
			}
			out = append(out, "dec.keyset "+hx((&cnode{mt: 4, kids: []*cnode{tk}}).emit(nil, r, nil)))
		}
		// recipients
		rc := &cnode{mt: 4, kids: []*cnode{{mt: 2, b: foreignBucket(r, -6, r.Intn(2) == 0)}, {mt: 5, kids: []*cnode{{mt: 0, n: 4}, {mt: 2, b: randBytes(r, 2)}}}, {mt: 2, b: randBytes(r, r.Intn(6))}}}
		if r.Intn(3) == 0 {
			sub := &cnode{mt: 4, kids: []*cnode{{mt: 2, b: []byte{}}, {mt: 5}, {mt: 2, b: []byte{1}}}}
			if r.Intn(4) == 0 { // doubly nested: must be refused
				sub.kids = append(sub.kids, &cnode{mt: 4, kids: []*cnode{{mt: 4, kids: []*cnode{{mt: 2, b: []byte{}}, {mt: 5}, {mt: 2, b: []byte{2}}}}}})
			}
			rc.kids = append(rc.kids, &cnode{mt: 4, kids: []*cnode{sub}})
		}
		rb := rc.emit(nil, r, nil)
		if r.Intn(4) == 0 {
			rb = mutateBytes(r, rb)
		}
		out = append(out, "dec.recipient "+hx(rb))
		out = append(out, "dec.bytestr "+optBytes(r))
		{ // text forms given directly to the decoders: well-formed, and malformed in every small way
			hexs := hex.EncodeToString(randBytes(r, r.Intn(6)))
			if r.Intn(3) == 0 {
				hexs = strings.ToUpper(hexs)
			}
			cands := []string{`"` + hexs + `"`, hexs, `"`, ``, `""`, `"0"`, `"zz"`, `"` + hexs, hexs + `"`, `null`, `x`, `"` + hexs + `0"`, ` "` + hexs + `"`, `'` + hexs + `'`, `"\"`, `nul`, `"0g"`}
			c := cands[r.Intn(len(cands))]
			out = append(out, "dec.bytestrjson "+hx([]byte(c)), "dec.bytestrtext "+hx([]byte(c)))
		}
		alg := symAlgs[r.Intn(len(symAlgs))]
		out = append(out, "dec.keyjson "+genSymKey(r, alg, true))
		// signature and ECDH keys, private and public, through JSON / text / CBOR into fresh and used variables
		switch r.Intn(3) {
		case 0:
			out = append(out, "dec.keyjson "+genEdKey(r).tokens(r, r.Intn(3), genCommonExtras(r, -8, sigOpsChoices)))
		case 1:
			a := sigAlgs[r.Intn(3)]
			out = append(out, "dec.keyjson "+genEcScalar(r, a).tokens(r, r.Intn(4), genCommonExtras(r, a, sigOpsChoices)))
		default:
			out = append(out, "dec.keyjson "+genDhKey(r, 1+r.Intn(4)).tokens(r, r.Intn(3), nil))
		}
	}
	return out
}
