package main

import (
	goecdsa "crypto/ecdsa"
	goed25519 "crypto/ed25519"
	"crypto/elliptic"
	"fmt"
	"math/big"
	"math/rand"
	"strings"
	"sync"

	"github.com/ldclabs/cose/iana"
)

// deterministic reader for key generation from the harness PRNG
type rngReader struct{ r *rand.Rand }

// crypto/ecdsa.Sign and crypto/ecdh's GenerateKey call randutil.MaybeReadByte, which reads ONE byte from the reader with
// probability 1/2 (deliberately non-deterministic). Answering one-byte reads without touching the PRNG keeps the
// generated operation stream a function of the seed alone (a disagreement replays from the seed, not only from the stored op).
func (x rngReader) Read(p []byte) (int, error) {
	if len(p) == 1 {
		p[0] = 0
		return 1, nil
	}
	return x.r.Read(p)
}

func curveOfAlg(alg int) (elliptic.Curve, int) {
	switch alg {
	case iana.AlgorithmES256:
		return elliptic.P256(), iana.EllipticCurveP_256
	case iana.AlgorithmES384:
		return elliptic.P384(), iana.EllipticCurveP_384
	case iana.AlgorithmES512:
		return elliptic.P521(), iana.EllipticCurveP_521
	}
	return nil, 0
}

var (
	shortOnce    sync.Once
	shortScalars = map[int][]int64{} // alg -> small scalars whose public x or y has a leading zero octet
)

func initShort() {
	for _, alg := range []int{iana.AlgorithmES256, iana.AlgorithmES384, iana.AlgorithmES512} {
		c, _ := curveOfAlg(alg)
		size := (c.Params().BitSize + 7) / 8
		limit := int64(3000)
		if alg == iana.AlgorithmES512 {
			limit = 600 // every second P-521 key has a leading zero octet
		}
		for i := int64(1); i < limit; i++ {
			x, y := c.ScalarBaseMult(big.NewInt(i).Bytes())
			if len(x.Bytes()) < size || len(y.Bytes()) < size {
				shortScalars[alg] = append(shortScalars[alg], i)
			}
		}
	}
}

type ecKey struct {
	alg, crv int
	curve    elliptic.Curve
	d        *big.Int
	x, y     *big.Int
}

func genEcScalar(r *rand.Rand, alg int) *ecKey {
	shortOnce.Do(initShort)
	c, crv := curveOfAlg(alg)
	k := &ecKey{alg: alg, crv: crv, curve: c}
	if r.Intn(3) == 0 && len(shortScalars[alg]) > 0 {
		k.d = big.NewInt(shortScalars[alg][r.Intn(len(shortScalars[alg]))])
	} else {
		k.d = new(big.Int).Rand(r, new(big.Int).Sub(c.Params().N, big.NewInt(1)))
		k.d.Add(k.d, big.NewInt(1))
		if r.Intn(6) == 0 { // scalar with leading zero octets
			k.d.Rsh(k.d, uint(8*(1+r.Intn(3))))
			if k.d.Sign() == 0 {
				k.d.SetInt64(7)
			}
		}
	}
	k.x, k.y = c.ScalarBaseMult(k.d.Bytes())
	return k
}

func (k *ecKey) size() int { return (k.curve.Params().BitSize + 7) / 8 }

// coordSeq: one counter per member (d, x, y): every fifth value of each member comes as key.ByteStr, every seventh as
// another named byte-slice type, whatever the seed (the random draw is kept so that the stream of choices is unchanged)
var coordSeq = map[string]int{}

func coordOf(member string, r *rand.Rand, v *big.Int, size int, mode int) string {
	coordSeq[member]++
	n := coordSeq[member]
	s := coord(r, v, size, mode)
	if i := strings.IndexByte(s, ':'); i >= 0 {
		switch {
		case n%5 == 3:
			return "bs" + s[i:]
		case n%7 == 5:
			return "bx" + s[i:]
		}
	}
	return s
}

func coord(r *rand.Rand, v *big.Int, size int, mode int) string {
	pfx := "b:"
	switch r.Intn(8) {
	case 0:
		pfx = "bs:" // the named type key.ByteStr: accepted wherever GetBytes is used
	case 1:
		pfx = "bx:" // another named byte-slice type (reflection path of GetBytes)
	}
	if v.BitLen() > 8*size { // wider than the curve: only as it is
		return pfx + hx(v.Bytes())
	}
	switch mode {
	case 0: // fixed length
		return pfx + hx(v.FillBytes(make([]byte, size)))
	case 1: // stripped
		return pfx + hx(v.Bytes())
	default: // extra padding up to 66
		n := size + r.Intn(67-size)
		return pfx + hx(v.FillBytes(make([]byte, n)))
	}
}

// form: 0 private d only, 1 private with x,y, 2 public uncompressed, 3 public compressed
// ktyOverride: "" (the key type as it should be), "omit" (no kty member), or the value token to put in its place
var ktyOverride string

func ktyPart(proper string) [][2]string {
	switch ktyOverride {
	case "":
		return [][2]string{{"int:1", proper}}
	case "omit":
		return nil
	}
	return [][2]string{{"int:1", ktyOverride}}
}

func (k *ecKey) tokens(r *rand.Rand, form int, extra []string) string {
	parts := append(ktyPart("int:2"), [2]string{"int:-1", intToken(r, int64(k.crv))})
	mode := r.Intn(3)
	// form: 0 d only, 1 d+x+y, 2 x+y, 3 x + sign bit (compressed), 4 d + x + sign bit
	if form <= 1 || form == 4 {
		dm := r.Intn(2)
		parts = append(parts, [2]string{"int:-4", coordOf("d", r, k.d, k.size(), dm)})
	}
	if form >= 1 {
		parts = append(parts, [2]string{"int:-2", coordOf("x", r, k.x, k.size(), mode)})
		if form == 3 || form == 4 {
			parts = append(parts, [2]string{"int:-3", map[bool]string{true: "T", false: "F"}[k.y.Bit(0) == 1]})
		} else {
			parts = append(parts, [2]string{"int:-3", coordOf("y", r, k.y, k.size(), mode)})
		}
	}
	for i := 0; i+1 < len(extra); i += 2 {
		parts = append(parts, [2]string{extra[i], extra[i+1]})
	}
	r.Shuffle(len(parts), func(i, j int) { parts[i], parts[j] = parts[j], parts[i] })
	out := []string{"{"}
	for _, p := range parts {
		out = append(out, p[0], p[1])
	}
	return strings.Join(append(out, "}"), " ")
}

func (k *ecKey) goPriv() *goecdsa.PrivateKey {
	return &goecdsa.PrivateKey{PublicKey: goecdsa.PublicKey{Curve: k.curve, X: k.x, Y: k.y}, D: k.d}
}

type edKey struct {
	seed []byte
	pub  []byte
}

func genEdKey(r *rand.Rand) *edKey {
	seed := randBytes(r, 32)
	priv := goed25519.NewKeyFromSeed(seed)
	return &edKey{seed: seed, pub: priv.Public().(goed25519.PublicKey)}
}

// form: 0 private d only, 1 private with x, 2 public
func (k *edKey) tokens(r *rand.Rand, form int, extra []string) string {
	parts := append(ktyPart("int:1"), [2]string{"int:-1", intToken(r, 6)})
	if form <= 1 {
		parts = append(parts, [2]string{"int:-4", "b:" + hx(k.seed)})
	}
	if form >= 1 {
		parts = append(parts, [2]string{"int:-2", "b:" + hx(k.pub)})
	}
	for i := 0; i+1 < len(extra); i += 2 {
		parts = append(parts, [2]string{extra[i], extra[i+1]})
	}
	r.Shuffle(len(parts), func(i, j int) { parts[i], parts[j] = parts[j], parts[i] })
	out := []string{"{"}
	for _, p := range parts {
		out = append(out, p[0], p[1])
	}
	return strings.Join(append(out, "}"), " ")
}

// optional members shared by all key kinds
func genCommonExtras(r *rand.Rand, alg int, opsChoices [][]int) []string {
	var e []string
	switch r.Intn(5) {
	case 4: // alg present but not an int32-range integer: not the same as absent (no inference from the curve)
		e = append(e, "int:3", []string{"i64:2147483648", "i64:-2147483649", "i64:1099511627776", "u64:9223372036854775808",
			"t:4853532d4c4d53", "t:666f6f", "nil", "T", "b:07", fmt.Sprintf("u64:%d", uint64(int64(alg))), fmt.Sprintf("i64:%d", int64(alg)+(1<<32))}[r.Intn(11)])
	case 0:
	case 1:
		e = append(e, "int:3", intToken(r, int64(alg)))
	default:
		e = append(e, "int:3", fmt.Sprintf("%s:%d", []string{"int", "alg", "i64"}[r.Intn(3)], alg))
	}
	if r.Intn(2) == 0 {
		e = append(e, "int:2", []string{"b:", "b:", "b:", "bs:", "bx:"}[r.Intn(5)]+hx(randBytes(r, 1+r.Intn(8))))
	}
	if r.Intn(3) == 0 {
		if r.Intn(4) == 0 {
			e = append(e, "int:4", genOpsValue(r))
		} else {
			e = append(e, "int:4", opsToken(r, opsChoices[r.Intn(len(opsChoices))]))
		}
	}
	return e
}

// ecKeyFromScalar: the key of curve `alg` with private scalar d (d must be in [1, n-1] of every curve it is used on)
func ecKeyFromScalar(alg int, d *big.Int) *ecKey {
	c, crv := curveOfAlg(alg)
	k := &ecKey{alg: alg, crv: crv, curve: c, d: new(big.Int).Set(d)}
	k.x, k.y = c.ScalarBaseMult(d.Bytes())
	return k
}

// tokensFixedD: a private key holding d as exactly n octets (the same octets whatever the curve), no public members
func (k *ecKey) tokensFixedD(r *rand.Rand, n int) string {
	return fmt.Sprintf("{ int:1 int:2 int:-1 %s int:-4 b:%s }", intToken(r, int64(k.crv)), hx(k.d.FillBytes(make([]byte, n))))
}
