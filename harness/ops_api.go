package main

import (
	"crypto/aes"
	"fmt"
	"math/rand"
	"strconv"

	"github.com/ldclabs/cose/cose"
	"github.com/ldclabs/cose/key"
	"github.com/ldclabs/cose/key/aesccm"
)

// api.*: the exported helpers that the other families reach only indirectly, called directly.
//
//	api.hdrfrombytes <hex>          cose.HeadersFromBytes, answered with the canonical re-encoding of the map
//	api.taglabel <hex>              a map with a tagged label is refused by every map decoder
//	api.hash <alg> <hex>            key.Alg(alg).HashFunc() + key.ComputeHash
//	api.crvalg <crv>                key.CrvAlg
//	api.emptyorhas <op> <ops…>      key.Ops.EmptyOrHas
//	api.newccm <tagsize> <noncesize>  aesccm.NewCCM parameter check, NonceSize / Overhead / MaxLength of the result
//	api.maxnonce <len>              aesccm.MaxNonceLength
func init() {
	register(&family{name: "api", gen: genAPI, exec: execAPI})
	for _, p := range []string{"C04", "C08", "C10", "C12", "C16", "C17"} {
		propFamilies[p] = append(propFamilies[p], "api")
	}
}

func execAPI(op string, a []string) string {
	switch op {
	case "api.hdrfrombytes":
		h, err := cose.HeadersFromBytes(unhxOpt(a[0]))
		if err != nil {
			return "err"
		}
		if h == nil {
			return "NIL-MAP-WITHOUT-ERROR"
		}
		b, err := h.MarshalCBOR()
		if err != nil {
			return "err-reencode"
		}
		// the convenience forms of the same map agree with its encoding and are well-formed CBOR
		if by := h.Bytesify(); string(by) != string(b) || key.ValidCBOR(by) != nil {
			return "HEADERS-BYTESIFY-DISAGREES " + hx(by) + " vs " + hx(b)
		}
		if kb, _ := key.MarshalCBOR(h); string(kb) != string(b) {
			return "HEADERS-MARSHAL-DISAGREES " + hx(kb) + " vs " + hx(b)
		}
		var nilH cose.Headers
		if nb := nilH.Bytesify(); key.ValidCBOR(nb) != nil {
			return "NIL-HEADERS-BYTESIFY-NOT-CBOR " + hx(nb)
		}
		return "ok " + hx(b)
	case "api.taglabel":
		// api.taglabel <hex>: a label map one of whose labels is wrapped in a tag the decoder has no meaning for: a tagged
		// label is neither an integer nor a text string — every map decoder refuses it (C08 specification op)
		data := unhx(a[0])
		var cm key.CoseMap
		var kk key.Key
		_, e1 := cose.HeadersFromBytes(data)
		if e1 == nil || cm.UnmarshalCBOR(data) == nil || kk.UnmarshalCBOR(data) == nil {
			return "accepted"
		}
		return "rejected"
	case "api.hash":
		alg, _ := strconv.Atoi(a[0])
		hf := key.Alg(alg).HashFunc()
		if hf == 0 {
			return "none"
		}
		d, err := key.ComputeHash(hf, unhx(a[1]))
		if err != nil {
			return "err"
		}
		return "ok " + hx(d)
	case "api.crvalg":
		c, _ := strconv.Atoi(a[0])
		return "ok " + strconv.Itoa(int(key.CrvAlg(c)))
	case "api.emptyorhas":
		op, _ := strconv.Atoi(a[0])
		var ops key.Ops
		for _, t := range a[1:] {
			n, _ := strconv.Atoi(t)
			ops = append(ops, n)
		}
		return fmt.Sprintf("ok %v %v", ops.EmptyOrHas(op), ops.Has(op))
	case "api.newccm":
		ts, _ := strconv.Atoi(a[0])
		ns, _ := strconv.Atoi(a[1])
		blk, _ := aes.NewCipher(make([]byte, 16))
		c, err := aesccm.NewCCM(blk, ts, ns)
		if err != nil {
			return "err"
		}
		return fmt.Sprintf("ok nonce=%d overhead=%d maxlen=%d", c.NonceSize(), c.Overhead(), c.MaxLength())
	case "api.maxnonce":
		n, _ := strconv.Atoi(a[0])
		return "ok " + strconv.Itoa(aesccm.MaxNonceLength(n))
	}
	return "unknown-op"
}

func genAPI(r *rand.Rand, n int) []string {
	var out []string
	for i := 0; i < n; i++ {
		if i%6 == 0 && (i/6)%3 == 1 { // a tagged label
			tag := []uint64{100, 4, 1000, 21, 65535, 32}[(i/18)%6]
			lab := []*cnode{{mt: 0, n: 1}, {mt: 1, n: 6}, {mt: 3, b: []byte("x")}, {mt: 0, n: 4}}[(i/18)%4]
			m := &cnode{mt: 5, kids: []*cnode{{mt: 6, n: tag, kids: []*cnode{lab}}, {mt: 1, n: 7}}}
			if (i/18)%2 == 1 { // next to an ordinary entry
				m.kids = append([]*cnode{{mt: 0, n: 3}, {mt: 0, n: 0}}, m.kids...)
			}
			out = append(out, "api.taglabel "+hx(m.emit(nil, r, nil)))
			continue
		}
		switch i % 6 {
		case 0: // a header bucket: canonical, non-canonical, 0 / 15 / 16 / 23 / 24 entries, not a map, empty, nil
			m := &cnode{mt: 5}
			cnt := []int{0, 1, 2, 15, 16, 17, 23, 24, 3}[(i/6)%9]
			for j := 0; j < cnt; j++ {
				m.kids = append(m.kids, &cnode{mt: 0, n: uint64(10 + j)}, &cnode{mt: 0, n: uint64(r.Intn(100))})
			}
			var o *emitOpts
			if r.Intn(3) == 0 {
				o = &emitOpts{nonShortest: 0.4}
			}
			b := m.emit(nil, r, o)
			switch r.Intn(8) {
			case 0:
				b = []byte{}
			case 1:
				out = append(out, "api.hdrfrombytes ~")
				continue
			case 2:
				b = [][]byte{{0x80}, {0x40}, {0x01}, {0xf6}, {0xf5}, {0xa1, 0x01}, {0xa1, 0xf5, 0x01}, {0xa2, 0x01, 0x02, 0x01, 0x03}}[r.Intn(8)]
			case 3:
				b = mutateBytes(r, b)
			}
			out = append(out, "api.hdrfrombytes "+hx(b))
		case 1:
			alg := []int{-7, -35, -36, 4, 5, 6, 7, -8, 1, 0, 14, 24, -37, -65535}[(i/6)%14]
			out = append(out, fmt.Sprintf("api.hash %d %s", alg, hx(randBytes(r, []int{0, 1, 31, 32, 48, 55, 56, 64, 111, 112, 128, 200}[r.Intn(12)]))))
		case 2:
			out = append(out, fmt.Sprintf("api.crvalg %d", []int{1, 2, 3, 4, 5, 6, 7, 8, 0, -1, 9, 256}[(i/6)%12]))
		case 3:
			ops := ""
			for j := r.Intn(4); j > 0; j-- {
				ops += " " + strconv.Itoa(1+r.Intn(10))
			}
			out = append(out, fmt.Sprintf("api.emptyorhas %d%s", 1+r.Intn(10), ops))
		case 4:
			out = append(out, fmt.Sprintf("api.newccm %d %d", (i/6)%20-1, 5+(i/120)%11))
		default:
			out = append(out, fmt.Sprintf("api.maxnonce %d", []int{0, 1, 65535, 65536, 65519, 65520, 1 << 24, 1<<24 - 16, 1<<24 - 15, 1 << 32, 1 << 40, 1 << 62, -1}[(i/6)%13]))
		}
	}
	return out
}
