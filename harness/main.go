// Command harness drives the real ldclabs/cose library through the line protocol shared with the
// Lean driver (DESIGN §5).  `harness gen` writes operations, `harness exec` answers them.
package main

import (
	"bufio"
	"flag"
	"fmt"
	"math/rand"
	"os"
	"runtime/debug"
	"runtime/metrics"
	"strings"
	"time"
)

// A family generates op lines and executes them against the library.
type family struct {
	name string
	// gen returns op lines (without answers); n is the budget
	gen func(r *rand.Rand, n int) []string
	// exec answers one op (op name, args)
	exec func(op string, args []string) string
}

var families = map[string]*family{}

// sub-generators selectable as "family:sub"
var subGens = map[string]func(r *rand.Rand, n int) []string{}

// non-nil while a `seq` line is executed: key objects by their token string
var sharedKeys map[string]any

func register(f *family) { families[f.name] = f }

// which families serve which property
var propFamilies = map[string][]string{
	"C18": {"cwt"},
}

func execLine(line string) (ans string) {
	defer func() {
		if r := recover(); r != nil {
			ans = "panic " + firstLine(fmt.Sprint(r))
			if os.Getenv("VERIF_TRACE") != "" {
				debug.PrintStack()
			}
		}
	}()
	toks := strings.Fields(line)
	if len(toks) == 0 {
		return ""
	}
	// resource guard (outermost operation only): allocation and time stay proportional to the size of the operation line
	// — generous constants, so that only a super-linear or payload-times-count behaviour trips it
	if !tracking && !resourceExempt(toks[0]) {
		a0, t0 := allocatedBytes(), time.Now()
		defer func() {
			da, dt := allocatedBytes()-a0, time.Since(t0)
			if strings.HasPrefix(ans, "panic ") {
				return
			}
			if da > 8<<20+256*uint64(len(line)) {
				ans = fmt.Sprintf("RESOURCE allocated %d octets for an operation line of %d", da, len(line))
			} else if dt > 10*time.Second+time.Duration(len(line))*100*time.Microsecond {
				ans = fmt.Sprintf("RESOURCE took %s for an operation line of %d", dt.Round(time.Millisecond), len(line))
			}
		}()
	}
	// argument guards: what this operation parses from its line is compared after the operation
	wasTracking := tracking
	tracking = true
	nb, nk := len(trackedSlice), len(trackedKeys)
	defer func() {
		if bad := argumentsIntact(nb, nk); bad != "" && !strings.HasPrefix(ans, "panic ") {
			ans = bad
		}
		trackedSlice, trackedKeys = trackedSlice[:nb], trackedKeys[:nk]
		tracking = wasTracking
	}()
	if toks[0] == "seq" {
		// seq <op A> ;; <op B> …: run the operations in order on shared key objects (identical key tokens denote
		// the same key.Key map), answer the last one
		sharedKeys = map[string]any{}
		defer func() { sharedKeys = nil }()
		for _, part := range strings.Split(strings.Join(toks[1:], " "), " ;; ") {
			ans = execLine(part)
		}
		return ans
	}
	fam := toks[0]
	if i := strings.IndexByte(fam, '.'); i >= 0 {
		fam = fam[:i]
	}
	f := families[fam]
	if f == nil {
		return "unknown-op"
	}
	return f.exec(toks[0], toks[1:])
}

var allocSample = []metrics.Sample{{Name: "/gc/heap/allocs:bytes"}}

func allocatedBytes() uint64 {
	metrics.Read(allocSample)
	if allocSample[0].Value.Kind() == metrics.KindUint64 {
		return allocSample[0].Value.Uint64()
	}
	return 0
}

// operations that are long histories or generate keys by design
func resourceExempt(op string) bool {
	switch op {
	case "msg.noncehistory", "cwt.wallclock", "seq", "msg.huge": // msg.huge: the size is an argument, not the length of the line
		return true
	}
	return strings.HasPrefix(op, "conv.")
}

func firstLine(s string) string {
	if i := strings.IndexByte(s, '\n'); i >= 0 {
		s = s[:i]
	}
	return strings.ReplaceAll(s, " ", "_")
}

func main() {
	if len(os.Args) < 2 {
		fmt.Fprintln(os.Stderr, "usage: harness gen|exec ...")
		os.Exit(2)
	}
	switch os.Args[1] {
	case "gen":
		fs := flag.NewFlagSet("gen", flag.ExitOnError)
		prop := fs.String("prop", "", "property id")
		fam := fs.String("family", "", "single family (overrides -prop)")
		seed := fs.Int64("seed", 1, "seed")
		n := fs.Int("n", 1000, "budget (cases per family)")
		fs.Parse(os.Args[2:])
		names := propFamilies[*prop]
		if *fam != "" {
			names = []string{*fam}
		}
		if len(names) == 0 {
			fmt.Fprintln(os.Stderr, "no families for", *prop)
			os.Exit(2)
		}
		w := bufio.NewWriterSize(os.Stdout, 1<<20)
		defer w.Flush()
		for i, name := range names {
			sub := ""
			if j := strings.IndexByte(name, ':'); j >= 0 {
				name, sub = name[:j], name[j+1:]
			}
			f := families[name]
			if f != nil && sub != "" {
				g := subGens[name+":"+sub]
				if g == nil {
					fmt.Fprintln(os.Stderr, "unknown sub-generator", name, sub)
					os.Exit(2)
				}
				f = &family{name: name, gen: g, exec: f.exec}
			}
			if f == nil {
				fmt.Fprintln(os.Stderr, "unknown family", name)
				os.Exit(2)
			}
			r := rand.New(rand.NewSource(*seed*1000003 + int64(i)))
			for _, l := range f.gen(r, *n) {
				w.WriteString(l)
				w.WriteByte('\n')
			}
		}
	case "exec":
		sc := bufio.NewScanner(os.Stdin)
		sc.Buffer(make([]byte, 1<<20), 1<<28)
		w := bufio.NewWriterSize(os.Stdout, 1<<20)
		defer w.Flush()
		for sc.Scan() {
			w.WriteString(execLine(sc.Text()))
			w.WriteByte('\n')
		}
	default:
		fmt.Fprintln(os.Stderr, "unknown command", os.Args[1])
		os.Exit(2)
	}
}
