package main

import (
	"bytes"
	goecdh "crypto/ecdh"
	"fmt"
	"math/big"
	"math/rand"
	"strings"

	"github.com/ldclabs/cose/iana"
	"github.com/ldclabs/cose/key"
	"github.com/ldclabs/cose/key/ecdh"
)

func init() {
	register(&family{name: "ecdh", gen: genEcdhOps, exec: execEcdh})
	propFamilies["C14"] = []string{"ecdh"}
	propFamilies["C15"] = append(propFamilies["C15"], "ecdh")
}

func execEcdh(op string, a []string) string {
	switch op {
	case "ecdh.topublic":
		in := keyFromToks(a)
		pub, err := ecdh.ToPublicKey(in)
		if err == nil && !in.Has(iana.KeyParameterKid) && in.Has(iana.EC2KeyParameterD) {
			// the library adds its default kid (a SHA3 digest of the public point, not modelled): checked here against
			// key.SumKid over the returned point, then set aside
			x, _ := pub.GetBytes(iana.EC2KeyParameterX)
			data := x
			if y, e := pub.GetBytes(iana.EC2KeyParameterY); e == nil && pub.Has(iana.EC2KeyParameterY) {
				data = append(append([]byte{4}, x...), y...)
			}
			kid, _ := pub.GetBytes(iana.KeyParameterKid)
			if !bytes.Equal(kid, key.SumKid(data)) {
				return "DEFAULT-KID-DISAGREES " + hx(kid)
			}
			cp := key.Key{}
			for k, v := range pub {
				if k != iana.KeyParameterKid {
					cp[k] = v
				}
			}
			pub = cp
		}
		return keyDump(pub, err)
	case "ecdh.compress":
		return keyDump(ecdh.ToCompressedKey(keyFromToks(a)))
	case "ecdh.derive":
		// ecdh.derive <local…> | <remote…> | <opsAfter…>
		lt, rest := splitBar(a)
		rt, after := splitBar(rest)
		local := keyFromToks(lt)
		e, err := ecdh.NewECDHer(local)
		if err != nil {
			return "err new"
		}
		applyOpsAfter(local, after)
		s, err := e.ECDH(keyFromToks(rt))
		if err != nil {
			return "err"
		}
		return "ok " + hx(s)
	case "ecdh.derive2":
		// ecdh.derive2 <local…> | <remote1…> | <remote2…>: one ECDHer, two agreements; the second is answered.
		// Specification (history freedom): as `ecdh.derive <local> | <remote2> | same` on a fresh ECDHer.
		lt, rest := splitBar(a)
		r1, r2 := splitBar(rest)
		e, err := ecdh.NewECDHer(keyFromToks(lt))
		if err != nil {
			return "err new"
		}
		e.ECDH(keyFromToks(r1))
		s, err := e.ECDH(keyFromToks(r2))
		if err != nil {
			return "err"
		}
		return "ok " + hx(s)
	case "ecdh.symmetric":
		// both directions on the library: a's private with b's public and vice versa
		at, bt := splitBar(a)
		ka, kb := keyFromToks(at), keyFromToks(bt)
		ea, err1 := ecdh.NewECDHer(ka)
		eb, err2 := ecdh.NewECDHer(kb)
		if err1 != nil || err2 != nil {
			return "err new"
		}
		pa, err1 := ecdh.ToPublicKey(ka)
		pb, err2 := ecdh.ToPublicKey(kb)
		if err1 != nil || err2 != nil {
			return "err pub"
		}
		s1, err1 := ea.ECDH(pb)
		s2, err2 := eb.ECDH(pa)
		if err1 != nil || err2 != nil {
			return "err derive"
		}
		if string(s1) != string(s2) {
			return "ASYMMETRIC " + hx(s1) + " " + hx(s2)
		}
		return "ok " + hx(s1)
	}
	return "unknown-op"
}

type dhKey struct {
	crv  int
	d    []byte
	pubX []byte // X25519 u or NIST x (fixed)
	pubY []byte
}

func genDhKey(r *rand.Rand, crv int) *dhKey {
	shortOnce.Do(initShort)
	var c goecdh.Curve
	alg := 0
	switch crv {
	case 1:
		c, alg = goecdh.P256(), iana.AlgorithmES256
	case 2:
		c, alg = goecdh.P384(), iana.AlgorithmES384
	case 3:
		c, alg = goecdh.P521(), iana.AlgorithmES512
	default:
		c = goecdh.X25519()
	}
	if crv == 4 {
		k, _ := c.GenerateKey(rngReader{r})
		return &dhKey{crv: crv, d: k.Bytes(), pubX: k.PublicKey().Bytes()}
	}
	ec := genEcScalar(r, alg)
	size := ec.size()
	return &dhKey{crv: crv, d: ec.d.FillBytes(make([]byte, size)), pubX: ec.x.FillBytes(make([]byte, size)), pubY: ec.y.FillBytes(make([]byte, size))}
}

func stripZ(b []byte) []byte {
	for len(b) > 1 && b[0] == 0 {
		b = b[1:]
	}
	return b
}

// dhPfx: the Go type a byte-string member of a hand-built key comes in — []byte, and at fixed slots per member (whatever
// the seed) key.ByteStr or another named byte-slice type, which every accessor must treat alike
var dhPfxSeq = map[string]int{}

func dhPfx(member string) string {
	dhPfxSeq[member]++
	switch n := dhPfxSeq[member]; {
	case n%5 == 3:
		return "bs:"
	case n%7 == 5:
		return "bx:"
	}
	return "b:"
}

// form: 0 private, 1 private+public, 2 public uncompressed, 3 public stripped coords, 4 compressed, 5 compressed stripped x
func (k *dhKey) tokens(r *rand.Rand, form int, extra []string) string {
	ktyN := int64(2)
	if k.crv == 4 {
		ktyN = 1
	}
	// kty and crv in the Go kinds a constructed, decoded or hand-written key holds them in
	parts := [][2]string{{"int:1", intToken(r, ktyN)}, {"int:-1", intToken(r, int64(k.crv))}}
	if form <= 1 {
		parts = append(parts, [2]string{"int:-4", dhPfx("d") + hx(k.d)})
	}
	if form >= 1 {
		x, y := k.pubX, k.pubY
		if form == 3 || form == 5 {
			x, y = stripZ(x), stripZ(y)
		}
		parts = append(parts, [2]string{"int:-2", dhPfx("x") + hx(x)})
		if k.crv != 4 {
			if form >= 4 {
				parts = append(parts, [2]string{"int:-3", map[bool]string{true: "T", false: "F"}[k.pubY[len(k.pubY)-1]&1 == 1]})
			} else {
				parts = append(parts, [2]string{"int:-3", dhPfx("y") + hx(y)})
			}
		}
	}
	for i := 0; i+1 < len(extra); i += 2 {
		parts = append(parts, [2]string{extra[i], extra[i+1]})
	}
	r.Shuffle(len(parts), func(i, j int) { parts[i], parts[j] = parts[j], parts[i] })
	out := []string{"{"}
	for _, p := range parts {
		out = append(out, p[0], p[1])
	}
	return strings.Join(append(out, "}"), " ")
}

var lowOrderX25519 = []string{
	"0000000000000000000000000000000000000000000000000000000000000000",
	"0100000000000000000000000000000000000000000000000000000000000000",
	"e0eb7a7c3b41b8ae1656e3faf19fc46ada098deb9c32b1fd866205165f49b800",
	"5f9c95bca3508c24b1d0b1559c83ef5b04445cc4581c8e86d8224eddd09f1157",
	"ecffffffffffffffffffffffffffffffffffffffffffffffffffffffffffff7f",
	"edffffffffffffffffffffffffffffffffffffffffffffffffffffffffffff7f",
	"eeffffffffffffffffffffffffffffffffffffffffffffffffffffffffffff7f",
}

func genEcdhOps(r *rand.Rand, n int) []string {
	var out, extra []string // extra: appended after the rest
	dhOps := [][]int{{7}, {8}, {7, 8}, {}, {1}, {7, 3}}
	for i := 0; i < n; i++ {
		crv := 1 + r.Intn(4)
		a, b := genDhKey(r, crv), genDhKey(r, crv)
		kidA := []string{"int:2", "b:" + hx(randBytes(r, 4))}
		extraA := append([]string{}, kidA...)
		if r.Intn(3) == 0 {
			extraA = append(extraA, "int:4", opsToken(r, dhOps[r.Intn(len(dhOps))]))
		}
		if r.Intn(5) == 0 {
			extraA = append(extraA, "int:3", fmt.Sprintf("int:%d", []int{-25, -26, -27, -28, -29, -31, -34, -7, 1}[r.Intn(9)]))
		}
		local := a.tokens(r, r.Intn(2), extraA)
		form := 2 + r.Intn(4)
		if crv == 4 {
			form = 2
		}
		remote := b.tokens(r, form, []string{"int:2", "b:" + hx(randBytes(r, 3))})
		switch r.Intn(14) {
		case 0: // remote is private
			remote = b.tokens(r, r.Intn(2), kidA)
		case 1: // other curve
			remote = genDhKey(r, 1+(crv%4)).tokens(r, 2, kidA)
		case 2: // off-curve / invalid x
			bad := *b
			if crv == 4 {
				bad.pubX = unhx(lowOrderX25519[r.Intn(len(lowOrderX25519))])
			} else {
				x := new(big.Int).SetBytes(b.pubX)
				x.Add(x, big.NewInt(int64(1+r.Intn(3))))
				bad.pubX = x.FillBytes(make([]byte, len(b.pubX)))
			}
			remote = bad.tokens(r, form, kidA)
		case 3, 5: // wrong lengths: random octets, or the genuine coordinate cut at either end / extended
			bad := *b
			lens := []int{1, 16, 31, 33, 48, 65, 66, 67}
			if crv == 4 {
				lens = []int{1, 16, 31, 31, 33, 0}
			}
			switch r.Intn(4) {
			case 0:
				bad.pubX = append([]byte{}, b.pubX[1:]...)
			case 1:
				bad.pubX = append([]byte{}, b.pubX[:len(b.pubX)-1]...)
			case 2:
				bad.pubX = append(append([]byte{}, b.pubX...), 0)
			default:
				bad.pubX = randBytes(r, lens[r.Intn(len(lens))])
			}
			if crv != 4 && len(bad.pubX) < len(b.pubX) && bad.pubX[0] == 0 {
				bad.pubX[0] = 1 // (a NIST coordinate may legitimately drop leading zeros; keep this one wrong)
			}
			remote = bad.tokens(r, form, kidA)
		case 4: // all-zero coordinates
			bad := *b
			bad.pubX = make([]byte, len(b.pubX))
			if b.pubY != nil {
				bad.pubY = make([]byte, len(b.pubY))
			}
			remote = bad.tokens(r, form, kidA)
		}
		if i%7 == 0 { // key type and curve that do not belong together (EC2 with X25519, OKP with a NIST curve), private and public
			mis := fmt.Sprintf("{ int:1 %s int:-1 %s int:-4 b:%s }", intToken(r, 2), intToken(r, 4), hx(randBytes(r, 32)))
			if r.Intn(2) == 0 {
				c2 := 1 + r.Intn(3)
				k2 := genDhKey(r, c2)
				mis = fmt.Sprintf("{ int:1 %s int:-1 %s int:-4 b:%s }", intToken(r, 1), intToken(r, int64(c2)), hx(k2.d))
				if r.Intn(2) == 0 {
					mis = fmt.Sprintf("{ int:1 %s int:-1 %s int:-2 b:%s }", intToken(r, 1), intToken(r, int64(c2)), hx(k2.pubX))
				}
			}
			out = append(out, "ecdh.topublic "+mis, "ecdh.compress "+mis, fmt.Sprintf("ecdh.derive %s | %s | same", local, mis), fmt.Sprintf("ecdh.derive %s | %s | same", mis, remote))
		}
		if i%5 == 0 && crv != 4 { // a private key that embeds another key's public point: d decides
			odd := dhKey{crv: crv, d: a.d, pubX: b.pubX, pubY: b.pubY}
			ot := odd.tokens(r, 1, kidA)
			out = append(out, "ecdh.topublic "+ot, "ecdh.compress "+ot, fmt.Sprintf("ecdh.derive %s | %s | same", ot, b.tokens(r, 2, kidA)))
		}
		if i%11 == 3 && crv != 4 { // a compressed remote key whose x ends in a zero octet (searched for): trailing zeros are digits
			for try := 0; try < 4000; try++ {
				z := genDhKey(r, crv)
				if z.pubX[len(z.pubX)-1] == 0 {
					out = append(out, fmt.Sprintf("ecdh.derive %s | %s | same", local, z.tokens(r, 4, kidA)), fmt.Sprintf("ecdh.derive %s | %s | same", local, z.tokens(r, 5, kidA)), "ecdh.compress "+z.tokens(r, 2, kidA))
					break
				}
			}
		}
		if i%11 == 6 { // remote (and local) keys naming a curve this package has no arithmetic for, every registered id and some beyond
			oc := []int{5, 6, 7, 8, 0, 9, -1, 256, 2147483647}[(i/11)%9]
			kty := "int:1"
			if oc == 1 || oc == 2 || oc == 3 || oc == 8 || oc > 8 || oc <= 0 {
				kty = "int:2"
			}
			foreign := fmt.Sprintf("{ int:1 %s int:-1 int:%d int:-2 b:%s }", kty, oc, hx(randBytes(r, 32)))
			foreignPriv := fmt.Sprintf("{ int:1 %s int:-1 int:%d int:-4 b:%s }", kty, oc, hx(randBytes(r, 32)))
			out = append(out, fmt.Sprintf("ecdh.derive %s | %s | same", local, foreign), "ecdh.topublic "+foreignPriv, "ecdh.topublic "+foreign,
				fmt.Sprintf("ecdh.derive %s | %s | same", foreignPriv, remote))
		}
		if i%6 == 1 {
			// fixed slots, every curve and public form in turn: a key pair agreeing with itself (the remote key is the local
			// public key — a reflected or loop-back key): an agreement like any other, d·(d·G)
			r2 := rand.New(rand.NewSource(int64(i)*32452843 + 5))
			c2 := 1 + (i/6)%4
			s2 := genDhKey(r2, c2)
			f2 := 2 + (i/24)%4
			if c2 == 4 {
				f2 = 2
			}
			extra = append(extra, fmt.Sprintf("ecdh.derive %s | %s | same", s2.tokens(r2, (i/6)%2, nil), s2.tokens(r2, f2, nil)),
				fmt.Sprintf("ecdh.symmetric %s | %s", s2.tokens(r2, 0, nil), s2.tokens(r2, 1, nil)))
		}
		after := "same"
		if r.Intn(8) == 0 {
			after = genOpsValue(r)
		}
		out = append(out, fmt.Sprintf("ecdh.derive %s | %s | %s", local, remote, after))
		if i%3 == 0 { // one ECDHer, a good remote first, then `remote` under the same kid / without kid
			kid2 := [][]string{kidA, nil, {"int:2", "b:"}}[r.Intn(3)]
			first := genDhKey(r, crv).tokens(r, form, kid2)
			second := remote
			if r.Intn(2) == 0 {
				second = b.tokens(r, form, kid2)
			}
			out = append(out, fmt.Sprintf("ecdh.derive2 %s | %s | %s", local, first, second))
		}
		out = append(out, fmt.Sprintf("ecdh.symmetric %s | %s", a.tokens(r, r.Intn(2), kidA), b.tokens(r, r.Intn(2), kidA)))
		out = append(out, "ecdh.topublic "+a.tokens(r, r.Intn(3), extraA), "ecdh.compress "+b.tokens(r, r.Intn(5), kidA))
	}
	return append(out, extra...)
}
