package main

import (
	"encoding/hex"
	"fmt"
	"math"
	"strconv"
	"strings"

	"github.com/ldclabs/cose/key"
)

// Dynamic Go values in the line protocol (DESIGN §5.1):
//   int:N i8:N i16:N i32:N i64:N u:N u8:N u16:N u32:N u64:N alg:N   integers of a given Go kind
//   b:HEX bnil bs:HEX bx:HEX []byte, nil []byte, key.ByteStr, another named byte-slice type   (HEX "-" = empty)
//   t:HEX                    string (UTF-8 bytes in hex)
//   T F nil f:FLOAT
//   [ v … ]   ints[ n … ]   ops[ n … ]   { k v … }                   []any, []int, key.Ops, key.CoseMap

func hx(b []byte) string {
	if len(b) == 0 {
		return "-"
	}
	return hex.EncodeToString(b)
}

func hxOpt(b []byte) string {
	if b == nil {
		return "~"
	}
	return hx(b)
}

func unhx(s string) []byte {
	if s == "-" {
		return []byte{}
	}
	b, err := hex.DecodeString(s)
	if err != nil {
		panic("bad hex " + s)
	}
	return trackBytes(b)
}

// ---- argument guards (exec mode): every byte string and every key parsed from an operation line is remembered, and
// after the operation it must be what it was — the library reads its arguments, it does not write to them, append into
// their spare capacity, or edit the key objects it is handed.  Places where the harness itself changes an argument on
// purpose call untrack / resnapKeys.

const guardLen = 8

type trackedBytes struct {
	view []byte // len n, cap n+guardLen
	want []byte
}

type trackedKey struct {
	k    any
	want string
}

var (
	tracking     bool
	trackedSlice []trackedBytes
	trackedKeys  []trackedKey
)

func trackBytes(b []byte) []byte {
	if !tracking {
		return b
	}
	buf := make([]byte, len(b)+guardLen)
	copy(buf, b)
	for i := len(b); i < len(buf); i++ {
		buf[i] = 0xa5
	}
	trackedSlice = append(trackedSlice, trackedBytes{view: buf[:len(b)], want: append([]byte{}, buf...)})
	return buf[:len(b)]
}

// untrack: the harness is about to overwrite this argument itself
func untrack(b []byte) {
	for i := range trackedSlice {
		if len(b) > 0 && len(trackedSlice[i].view) > 0 && &trackedSlice[i].view[0] == &b[0] {
			trackedSlice[i].view = nil
		}
	}
}

func trackKey(k any) {
	if tracking {
		trackedKeys = append(trackedKeys, trackedKey{k: k, want: fmt.Sprintf("%#v", k)})
	}
}

// resnapKeys: the harness has just edited a key object itself
func resnapKeys() {
	for i := range trackedKeys {
		trackedKeys[i].want = fmt.Sprintf("%#v", trackedKeys[i].k)
	}
}

// argumentsIntact reports the first argument (registered from index nb / nk on) that is no longer what was parsed
func argumentsIntact(nb, nk int) string {
	for _, t := range trackedSlice[nb:] {
		if t.view == nil {
			continue
		}
		full := t.view[:len(t.view)+guardLen]
		if string(full) != string(t.want) {
			return "ARGUMENT-WRITTEN " + hx(t.want[:len(t.view)]) + " -> " + hx(full)
		}
	}
	for _, t := range trackedKeys[nk:] {
		if now := fmt.Sprintf("%#v", t.k); now != t.want {
			return "ARGUMENT-KEY-CHANGED " + strings.ReplaceAll(t.want, " ", "") + " -> " + strings.ReplaceAll(now, " ", "")
		}
	}
	return ""
}

func unhxOpt(s string) []byte {
	if s == "~" {
		return nil
	}
	return unhx(s)
}

// parseVal parses one value starting at toks[i], returns the value and the next index.
func parseVal(toks []string, i int) (any, int) {
	t := toks[i]
	switch {
	case t == "T":
		return true, i + 1
	case t == "F":
		return false, i + 1
	case t == "nil":
		return nil, i + 1
	case t == "bnil":
		return []byte(nil), i + 1
	case t == "[":
		out := []any{}
		i++
		for toks[i] != "]" {
			var v any
			v, i = parseVal(toks, i)
			out = append(out, v)
		}
		return out, i + 1
	case t == "ints[":
		out := []int{}
		i++
		for toks[i] != "]" {
			n, _ := strconv.Atoi(toks[i])
			out = append(out, n)
			i++
		}
		return out, i + 1
	case t == "ops[":
		out := key.Ops{}
		i++
		for toks[i] != "]" {
			n, _ := strconv.Atoi(toks[i])
			out = append(out, n)
			i++
		}
		return out, i + 1
	case t == "{":
		out := key.CoseMap{}
		i++
		for toks[i] != "}" {
			var k, v any
			k, i = parseVal(toks, i)
			v, i = parseVal(toks, i)
			out[k] = v
		}
		return out, i + 1
	}
	j := strings.IndexByte(t, ':')
	if j < 0 {
		panic("bad value token " + t)
	}
	kind, body := t[:j], t[j+1:]
	switch kind {
	case "b":
		return unhx(body), i + 1
	case "bs":
		return key.ByteStr(unhx(body)), i + 1
	case "bx": // a byte-slice type that is neither []byte nor key.ByteStr (what GetBytes reaches through reflection)
		return namedBytes(unhx(body)), i + 1
	case "t":
		return string(unhx(body)), i + 1
	case "f":
		f, _ := strconv.ParseFloat(body, 64)
		return f, i + 1
	}
	if strings.HasPrefix(kind, "u") {
		n, err := strconv.ParseUint(body, 10, 64)
		if err != nil {
			panic("bad uint " + t)
		}
		switch kind {
		case "u":
			return uint(n), i + 1
		case "u8":
			return uint8(n), i + 1
		case "u16":
			return uint16(n), i + 1
		case "u32":
			return uint32(n), i + 1
		case "u64":
			return uint64(n), i + 1
		}
	}
	n, err := strconv.ParseInt(body, 10, 64)
	if err != nil {
		panic("bad int " + t)
	}
	switch kind {
	case "int":
		return int(n), i + 1
	case "i8":
		return int8(n), i + 1
	case "i16":
		return int16(n), i + 1
	case "i32":
		return int32(n), i + 1
	case "i64":
		return int64(n), i + 1
	case "alg":
		return key.Alg(n), i + 1
	}
	panic("bad value token " + t)
}

// uintToken renders v in a randomly chosen Go integer kind that can hold it.
func uintToken(pick func(n int) int, v uint64) string {
	var kinds []string
	kinds = append(kinds, "u64", "u")
	if v <= math.MaxInt64 {
		kinds = append(kinds, "i64", "int")
	}
	if v <= math.MaxUint32 {
		kinds = append(kinds, "u32")
	}
	if v <= math.MaxInt32 {
		kinds = append(kinds, "i32")
	}
	if v <= math.MaxUint16 {
		kinds = append(kinds, "u16")
	}
	if v <= math.MaxInt16 {
		kinds = append(kinds, "i16")
	}
	if v <= math.MaxUint8 {
		kinds = append(kinds, "u8")
	}
	if v <= math.MaxInt8 {
		kinds = append(kinds, "i8")
	}
	return fmt.Sprintf("%s:%d", kinds[pick(len(kinds))], v)
}

// namedBytes stands for application types such as `type KeyID []byte` or crypto/ed25519.PublicKey held in a key map
type namedBytes []byte
