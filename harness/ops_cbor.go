package main

import (
	"bytes"
	"math/rand"

	"github.com/ldclabs/cose/key"
)

func init() {
	register(&family{name: "cbor", gen: genCbor, exec: execCbor})
	propFamilies["C08"] = append(propFamilies["C08"], "cbor")
}

func execCbor(op string, a []string) string {
	switch op {
	case "cbor.dec":
		if len(a) != 1 {
			return "bad-op"
		}
		var v any
		if err := key.UnmarshalCBOR(unhx(a[0]), &v); err != nil {
			return "err"
		}
		// what the decoder accepts, the well-formedness check accepts (it is the weaker test), and what the library
		// re-encodes it accepts again
		if key.ValidCBOR(unhx(a[0])) != nil {
			return "VALIDCBOR-REFUSES-WHAT-DECODES"
		}
		out, err := key.MarshalCBOR(v)
		if err != nil {
			return "err-reencode"
		}
		if key.ValidCBOR(out) != nil || !bytes.Equal(key.MustMarshalCBOR(v), out) {
			return "VALIDCBOR-REFUSES-OWN-ENCODING"
		}
		return "ok " + hx(out)
	case "cbor.enc":
		v, _ := parseVal(a, 0)
		out, err := key.MarshalCBOR(v)
		if err != nil {
			return "err"
		}
		// the library's own decoder must accept what the library encodes
		var back any
		if err := key.UnmarshalCBOR(out, &back); err != nil {
			return "ok " + hx(out) + " undecodable"
		}
		return "ok " + hx(out)
	}
	return "unknown-op"
}

func genCbor(r *rand.Rand, n int) []string {
	var out []string
	for i := 0; i < n/2; i++ {
		switch r.Intn(3) {
		case 0:
			out = append(out, "cbor.enc "+genMapTok(r, 3, r.Intn(12)))
		case 1:
			out = append(out, "cbor.enc "+genMapTok(r, 1, 20+r.Intn(300)))
		default:
			out = append(out, "cbor.enc "+genValTok(r, 3))
		}
	}
	for i := 0; i < n; i++ {
		exotic := r.Intn(4) == 0
		t := genTree(r, 1+r.Intn(4), exotic)
		var o *emitOpts
		switch r.Intn(6) {
		case 0:
			o = &emitOpts{nonShortest: 0.3}
		case 1:
			o = &emitOpts{indef: 0.15}
		case 2:
			o = &emitOpts{nonShortest: 0.1, indef: 0.05}
		default:
			if r.Intn(2) == 0 {
				t.sortKids(r)
			}
		}
		b := t.emit(nil, r, o)
		if r.Intn(5) == 0 {
			b = mutateBytes(r, b)
		}
		if r.Intn(40) == 0 { // duplicate a map pair somewhere: re-emit with a dup key
			b = append([]byte{0xa2}, append(append(append([]byte{}, 0x01), b...), append([]byte{0x18, 0x01}, b...)...)...)
		}
		out = append(out, "cbor.dec "+hx(b))
		if i%40 == 0 { // nesting around the decoder's limit (arrays, maps, tags, mixed), well-formed otherwise
			d := []int{30, 31, 32, 33, 34, 35, 48, 64, 200, 1000}[r.Intn(10)]
			var deep []byte
			for j := 0; j < d; j++ {
				switch r.Intn(4) {
				case 0:
					deep = append(deep, 0xa1, 0x00) // {0: …}
				case 1:
					deep = append(deep, 0xc1+byte(r.Intn(3))*0+0x18) // tag(24..)
					deep = append(deep, 0x40+byte(r.Intn(20)))
					deep = append(deep[:len(deep)-2], 0xd8, 0x40+byte(r.Intn(20)))
				default:
					deep = append(deep, 0x81) // […]
				}
			}
			deep = append(deep, 0x00)
			out = append(out, "cbor.dec "+hx(deep))
			// the same depth inside a label map value (what CoseMap / Headers / Key decoders see)
			out = append(out, "map.unmarshal "+hx(append([]byte{0xa1, 0x01}, deep...)))
		}
	}
	return out
}
